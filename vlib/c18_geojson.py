# -*- coding: utf-8 -*-
"""C18 — GeoJSON read/write is faithful to the feature collection."""

import bz2
import contextlib
import gzip
import io
import json
import os
import lzma

import numpy as np
import dataiter as di
from hypothesis import strategies as st

from . import build
from .runner import Violation

ID = "C18"
RULE = ("plan = FeatureCollection with 0..6 features (0..15 thorough); per property key (names incl. Unicode, quotes, blanks, "
        "'self', method clashes) one JSON type (bool, int |x| < 2**53, finite float, str) with null / absent per feature; "
        "geometry null or an arbitrary GeoJSON-like object; extra feature members (id, bbox); extra top-level members with "
        "arbitrary names (quotes, backslashes, Unicode) and arbitrary JSON values; indent in {None, 0, 2, 4}; suffix in "
        "{'', .gz, .bz2, .xz}. The input file is written with json.dump (independent of the writer under test). Oracle: read -> "
        "one row per feature in order, a column per property key + geometry, cells equal or missing, geometry deep-equal, "
        "metadata == other top-level members; write -> json.load gives valid JSON with the same members and features "
        "(null == absent == '' for strings); write -> read gives an equal frame and metadata. Non-trivial: ≥ 2 features with "
        "different key sets, or a null geometry, or an extra top-level member. Distinct = plan hash.")
CASES = {"quick": 1200, "thorough": 8000}
FUZZ_RUNS = {"thorough": 15000}     # coverage-guided leg, 8 processes (vlib/fuzz.py)

KEYS = ["a", "b", "name", "é", "x y", 'q"k', "items", "self", "back\\slash", "nrow",
        "", "ab", "na", "type", "properties", "features", "id", "bbox", "k, v", "k: v"]
TYPES = ["bool", "int", "float", "str", "num"]        # num: JSON integers and non-integral numbers under one key
VALS = {
    "bool": [True, False], "int": [0, 1, -7, 2**53 - 1, -2**40], "float": [0.5, -1.25, 1e300, 2.0, -0.0],
    "num": [3, 12, 7.25, 3.5, 0, -1, 1e3],
    "str": ["", "a", "é", 'q"q', "l\nm", "日本", " ", "p\u2028q", "n\u0085 x", "s\u2029",
            "Helsinki, Finland", "note: x", ", ", ": "],          # the separators of JSON text inside a string are characters
}
TOP_KEYS = ["name", "crs", 'we"ird', "back\\slash", "ünï", "bbox", "x y", "items", "tab\there", "ls\u2028x",
            # names contained in / containing the names the format itself uses
            "", "f", "s", "feat", "feature", "featuress", "typ", "types", "properties", "geometry"]

_json_value = st.recursive(
    st.one_of(st.none(), st.booleans(), st.integers(-2**53, 2**53), st.sampled_from([0.5, -1.5, 1e10]),
              st.text(alphabet='ab"\\é ,:', max_size=4)),
    lambda ch: st.one_of(st.lists(ch, max_size=3), st.dictionaries(st.sampled_from(["k", 'q"', "é"]), ch, max_size=2)),
    max_leaves=5)

_geometry = st.one_of(
    st.none(),
    st.just({}),                                  # an empty object is an object, not null
    st.builds(lambda x, y: {"type": "Point", "coordinates": [x, y]}, st.integers(-180, 180), st.sampled_from([0.5, 60, -89.25])),
    st.builds(lambda pts: {"type": "LineString", "coordinates": pts},
              st.lists(st.lists(st.integers(-9, 9), min_size=2, max_size=2), min_size=2, max_size=3)),
    st.builds(lambda g: {"type": "GeometryCollection", "geometries": g, "extra": {"n": 1}},
              st.lists(st.just({"type": "Point", "coordinates": [1, 2]}), max_size=2)),
)


@st.composite
def _plan(draw, max_feat):
    nk = draw(st.integers(0, 4))
    keys = draw(st.lists(st.sampled_from(KEYS), min_size=nk, max_size=nk, unique=True))
    types = {k: draw(st.sampled_from(TYPES)) for k in keys}
    nf = draw(st.one_of(st.sampled_from([0, 1, 2]), st.integers(0, max_feat)))
    feats = []
    for i in range(nf):
        props = {}
        for k in keys:
            r = draw(st.integers(0, 5))
            if r == 0:
                continue                      # absent
            props[k] = None if r == 1 else draw(st.sampled_from(VALS[types[k]]))
        f = {"type": "Feature", "properties": props, "geometry": draw(_geometry)}
        if draw(st.integers(0, 4)) == 0:
            f["id"] = i
        if draw(st.integers(0, 6)) == 0:
            f["bbox"] = [0, 0, 1, 1]
        feats.append(f)
    top = {}
    for k in draw(st.lists(st.sampled_from(TOP_KEYS), max_size=3, unique=True)):
        top[k] = draw(_json_value)
    repeat = None
    if nf >= 2 and draw(st.integers(0, 29)) == 0:
        # a collection of a thousand features and more (the drawn ones over and over): beyond any chunk size
        repeat = draw(st.sampled_from([999, 1000, 1001, 2001, 2500]))
    return {"failed_write": draw(st.sampled_from([None, None, None, "directory", "codec", "ascii"])), "repeat": repeat, "keys": keys, "types": types, "features": feats, "top": top,
            "indent": draw(st.sampled_from([None, 0, 2, 4, "default"])),
            # where the "type" member of the collection sits in the file that is read: member order is free in JSON
            "type_at": draw(st.sampled_from(["first", "first", "last", "after_long_member", "after_features"])),
            "suffix": draw(st.sampled_from(["", "", ".gz", ".bz2", ".xz"]))}


def strategy(tier):
    return _plan(6 if tier == "quick" else 15)


def nontrivial(plan):
    fs = plan["features"]
    if plan["top"]:
        return True
    if any(f["geometry"] is None for f in fs):
        return True
    return len(fs) >= 2 and len({tuple(sorted(f["properties"])) for f in fs}) >= 2


def _plain(x):
    """AttributeDicts -> plain JSON-like structures for deep comparison."""
    if isinstance(x, dict):
        return {k: _plain(v) for k, v in x.items()}
    if isinstance(x, (list, tuple)):
        return [_plain(v) for v in x]
    if isinstance(x, np.generic):
        return x.item()
    return x


def _json_same(a, b):
    """Deep equality that does not identify True with 1."""
    if isinstance(a, dict) and isinstance(b, dict):
        return list(a) == list(b) and all(_json_same(a[k], b[k]) for k in a)
    if isinstance(a, list) and isinstance(b, list):
        return len(a) == len(b) and all(_json_same(x, y) for x, y in zip(a, b))
    if isinstance(a, bool) or isinstance(b, bool):
        return a is b
    if isinstance(a, (int, float)) and isinstance(b, (int, float)):
        return a == b
    return type(a) is type(b) and a == b


def _expected_columns(plan):
    cols = []
    for f in plan["features"]:
        for k in f["properties"]:
            if k not in cols:
                cols.append(k)
    return cols


def _check_frame(what, data, plan):
    feats = plan["features"]
    cols = _expected_columns(plan)
    names = list(dict.keys(data))
    if names != cols + ["geometry"]:
        raise Violation(f"{what}: columns are not the property keys in first-seen order plus geometry", got=names,
                        want=cols + ["geometry"])
    if data.nrow != len(feats):
        raise Violation(f"{what}: not one row per feature", got=data.nrow, want=len(feats))
    for k in cols:
        col = data[k]
        oc = build.cells(col)
        stringish = build.is_stringish(np.asarray(col))
        for i, f in enumerate(feats):
            v = f["properties"].get(k)
            want = None if v is None or (stringish and v == "") or (plan["types"][k] == "str" and v == "") else v
            a = oc[i]
            if want is None or a is None:
                ok = want is None and (a is None or a == "")
            elif isinstance(want, bool):
                ok = a is want or (isinstance(a, bool) and a == want)
            elif isinstance(want, (int, float)):
                ok = isinstance(a, (int, float)) and not isinstance(a, bool) and float(a) == float(want)
            else:
                ok = a == want
            if not ok:
                raise Violation(f"{what}: cell differs from the feature's property", column=k, row=i, got=a, want=want,
                                dtype=str(np.asarray(col).dtype))
    geo = list(np.asarray(data["geometry"], dtype=object))
    for i, f in enumerate(feats):
        if not _json_same(_plain(geo[i]), f["geometry"]):
            raise Violation(f"{what}: geometry object changed", row=i, got=_plain(geo[i]), want=f["geometry"])
    want_meta = {"type": "FeatureCollection", **plan["top"]}
    got_meta = _plain(dict(data.metadata))
    if set(got_meta) != set(want_meta) or not all(_json_same(got_meta[k], want_meta[k]) for k in want_meta):
        raise Violation(f"{what}: metadata is not the other top-level members", got=got_meta, want=want_meta)


OPEN = {"": open, ".gz": gzip.open, ".bz2": bz2.open, ".xz": lzma.open}


def check(plan, ctx):
    if plan.get("repeat"):
        base = plan["features"]
        plan = dict(plan, features=[base[i % len(base)] for i in range(plan["repeat"])])
        ctx.cls("collection_of_999_features_or_more")
    feats = plan["features"]
    at = plan.get("type_at", "first")
    if at == "after_long_member":
        plan = dict(plan, top={"pad": "x" * 1500, **plan["top"]})
    if at == "first":
        doc = {"type": "FeatureCollection", **plan["top"], "features": feats}
    elif at == "after_features":
        doc = {"features": feats, "type": "FeatureCollection", **plan["top"]}
    else:
        doc = {**plan["top"], "features": feats, "type": "FeatureCollection"}
    ctx.cls("type_member_" + at)
    src = ctx.path("in.geojson")
    with open(src, "w", encoding="utf-8") as f:
        json.dump(doc, f, ensure_ascii=False)
    # history: another collection with other top-level members and properties was read earlier in this process
    other = ctx.path("other.geojson")
    with open(other, "w", encoding="utf-8") as f:
        json.dump({"type": "FeatureCollection", "crs": {"x": 1}, "zzz": True, "features": [
            {"type": "Feature", "properties": {"only_there": 1}, "geometry": None}]}, f)
    buf = io.StringIO()
    with contextlib.redirect_stdout(buf):
        di.GeoJSON.read(other)
        data = ctx.call("GeoJSON.read", di.GeoJSON.read, src)
    if not isinstance(data, di.GeoJSON):
        raise Violation("GeoJSON.read did not return a GeoJSON")
    _check_frame("read", data, plan)
    ctx.cls(f"features_{min(len(feats), 3)}", "top_members" if plan["top"] else "no_top_members")
    if any(f["geometry"] is None for f in feats):
        ctx.cls("null_geometry")
    ctx.cls(*("proptype_" + t for t in plan["types"].values()), "indent_" + str(plan["indent"]), "suffix_" + (plan["suffix"] or "none"))
    if any(k in "features" or k in "properties" or "type" in k for k in list(plan["top"]) + list(plan["keys"])):
        ctx.cls("name_contained_in_a_format_word")
    if len({tuple(sorted(f["properties"])) for f in feats}) >= 2:
        ctx.cls("features_with_different_key_sets")
    if any(v is None for f in feats for v in f["properties"].values()):
        ctx.cls("null_property")
    if any("id" in f or "bbox" in f for f in feats):
        ctx.cls("extra_feature_member")

    # ---- write -> json.load ----
    out = ctx.path("out.geojson" + plan["suffix"])
    kw = {} if plan["indent"] == "default" else {"indent": plan["indent"]}
    before = build.snap_frame(data)
    if plan.get("failed_write"):
        # history: a write that cannot succeed (the path is a directory, the codec does not exist, the text does not fit
        # the encoding) comes first: it must leave the frame as it was, and the correct write that follows must not notice
        how = plan["failed_write"]
        try:
            if how == "directory":
                data.write(os.path.dirname(out), **kw)
            elif how == "codec":
                data.write(ctx.path("bad.geojson"), encoding="no-such-codec", **kw)
            else:
                data.write(ctx.path("ascii.geojson"), encoding="ascii", **kw)
            ctx.cls("first_write_succeeded_after_all")
        except Exception:
            ctx.cls("after_a_failed_write")
        if build.snap_frame(data) != before:
            raise Violation("a failing GeoJSON.write changed its receiver", how=how, names_after=list(dict.keys(data)))
    ctx.call("GeoJSON.write", lambda: data.write(out, **kw))
    if build.snap_frame(data) != before:
        raise Violation("GeoJSON.write changed its receiver")
    try:
        with OPEN[plan["suffix"]](out, "rt", encoding="utf-8") as f:
            text = f.read()
    except Exception as e:
        raise Violation("written file cannot be opened as the suffix promises", suffix=plan["suffix"], exc=str(e)[:100])
    try:
        back = json.loads(text)
    except Exception as e:
        raise Violation("written file is not valid JSON", exc=str(e)[:120], head=text[:200])
    want_top = {"type": "FeatureCollection", **plan["top"]}
    if set(back) != set(want_top) | {"features"}:
        raise Violation("written file has different top-level members", got=sorted(back), want=sorted(want_top) + ["features"])
    for k in want_top:
        if not _json_same(back[k], want_top[k]):
            raise Violation("top-level member changed by write", member=k, got=back[k], want=want_top[k])
    if len(back["features"]) != len(feats):
        raise Violation("written file has a different number of features", got=len(back["features"]), want=len(feats))
    for i, (g, f) in enumerate(zip(back["features"], feats)):
        if g.get("type") != "Feature":
            raise Violation("written feature has no type Feature", row=i)
        if not _json_same(g.get("geometry"), f["geometry"]):
            raise Violation("written geometry differs", row=i, got=g.get("geometry"), want=f["geometry"])
        norm = lambda d: {k: v for k, v in d.items() if v is not None and v != ""}
        a, b = norm(g.get("properties", {})), norm(f["properties"])
        if set(a) != set(b):
            raise Violation("written properties differ (null == absent)", row=i, got=a, want=b)
        for k in a:
            x, y = a[k], b[k]
            ok = (x is y) if isinstance(y, bool) else (float(x) == float(y) and not isinstance(x, bool)) \
                if isinstance(y, (int, float)) and isinstance(x, (int, float)) else x == y
            if not ok:
                raise Violation("written property value differs", row=i, key=k, got=x, want=y)

    # ---- write -> read ----
    with contextlib.redirect_stdout(io.StringIO()):
        again = ctx.call("GeoJSON.read(written)", di.GeoJSON.read, out)
    plan2 = dict(plan)
    # a key that was null/absent in every feature still exists as a column after the first read
    _check_frame_again(again, data, plan)


def _check_frame_again(again, data, plan):
    if list(dict.keys(again)) != list(dict.keys(data)):
        raise Violation("write -> read: columns differ", got=list(dict.keys(again)), want=list(dict.keys(data)))
    if again.nrow != data.nrow:
        raise Violation("write -> read: row count differs")
    for k in dict.keys(data):
        if k == "geometry":
            a = [_plain(x) for x in np.asarray(again[k], dtype=object)]
            b = [_plain(x) for x in np.asarray(data[k], dtype=object)]
            if not all(_json_same(x, y) for x, y in zip(a, b)):
                raise Violation("write -> read: geometry differs")
            continue
        a, b = build.cells(again[k]), build.cells(data[k])
        for i, (x, y) in enumerate(zip(a, b)):
            if (x is None) != (y is None) or not build.same_cell(x, y, numeric_loose=True):
                raise Violation("write -> read: cell or missing position differs", column=k, row=i, got=x, want=y)
    ma, mb = _plain(dict(again.metadata)), _plain(dict(data.metadata))
    if set(ma) != set(mb) or not all(_json_same(ma[k], mb[k]) for k in mb):
        raise Violation("write -> read: metadata differs", got=ma, want=mb)


KNOWN = {}
