# -*- coding: utf-8 -*-
"""C13 — conversions to ListOfDicts, JSON, pandas and Arrow are invertible."""

import json

import numpy as np
import dataiter as di
from hypothesis import strategies as st

from . import build, gen
from .runner import Violation

ID = "C13"
RULE = ("plan = frame with 1..8 rows (1..25 thorough) and 1..4 columns over bool/int/float/str/date/datetime[us]/object-bool "
        "with missing values anywhere incl. the first position and whole columns, column names incl. non-identifiers and "
        "method clashes; every plan goes through all four converters and back. Oracle: intermediate has one record per row "
        "and one field per column in order, the format's null (None / null / isna / is_null) exactly at the missing positions "
        "and never a sentinel; back-conversion has the same names/order, nrow, cell-wise equal values, same missing positions, "
        "and the same dtype for every bool/int/float/str column with a non-missing value. Non-trivial: a missing value "
        "present. Distinct = plan hash.")
CASES = {"quick": 1200, "thorough": 6000}

KINDS = ["b", "i", "f", "s", "s", "d", "t", "ob", "obn"]
SENTINELS = {"", "NaT", "nan", "NaN", "None"}


@st.composite
def _plan(draw, max_rows):
    n = draw(st.integers(1, max_rows))
    k = draw(st.integers(1, 4))
    if draw(st.integers(0, 24)) == 0:
        # a long frame whose columns start with a long run of missing values (type guessing looks at the leading cells)
        n = draw(st.sampled_from([101, 130, 257]))
        lead = draw(st.sampled_from([99, 100, 101, n - 1]))
        nm = draw(gen.names(k))
        nm = [x if x else "blank" for x in nm]
        cols = []
        for j in range(k):
            kind = draw(st.sampled_from(["s", "s", "f", "d", "ob", "t"]))
            base = [v for v in gen.TIGHT[kind] if not build.plan_isna(kind, v)]
            cols.append({"name": nm[j], "kind": kind,
                         "vals": [gen.NA_VALUE[kind]] * lead + [base[i % len(base)] for i in range(n - lead)]})
        return {"frame": {"n": n, "cols": cols}}
    if draw(st.integers(0, 24)) == 0:
        # the mirror image: more than a thousand leading cells of one type without a missing value, then missing cells
        # (and other values) further down - whatever is decided from the head of a column is out of date there
        n = draw(st.sampled_from([1001, 1002, 1200, 2100]))
        lead = draw(st.sampled_from([1000, 1001, n - 1]))
        nm = [x if x else "blank" for x in draw(gen.names(k))]
        cols = []
        for j in range(k):
            kind = draw(st.sampled_from(["s", "s", "b", "f", "d", "ob", "t", "i"]))
            base = [v for v in gen.TIGHT[kind] if not build.plan_isna(kind, v)]
            tail = [gen.NA_VALUE.get(kind, base[0]) if i % 2 == 0 else base[i % len(base)] for i in range(n - lead)]
            cols.append({"name": nm[j], "kind": kind, "vals": [base[0]] * lead + tail})
        return {"frame": {"n": n, "cols": cols}}
    nm = draw(gen.names(k))
    nm = [x if x else "blank" for x in nm]
    cols = []
    for j in range(k):
        kind = draw(st.sampled_from(KINDS))
        vals = draw(gen.values(kind, n))
        if kind in ("s",) and n and draw(st.integers(0, 2)) == 0:
            vals[0] = ""                      # leading missing string
        cols.append({"name": nm[j], "kind": kind, "vals": vals})
    return {"frame": draw(gen.decorate({"n": n, "cols": cols}))}


def strategy(tier):
    return _plan(8 if tier == "quick" else 25)


def nontrivial(plan):
    return any(build.plan_isna(c["kind"], v) for c in plan["frame"]["cols"] for v in c["vals"])


def _compare_back(what, back, src, kinds, has_value):
    what = _PHASE[0] + what
    if not isinstance(back, di.DataFrame):
        raise Violation(f"{what}: back-conversion did not give a DataFrame")
    names = list(src)
    got = list(dict.keys(back))
    if got != names:
        raise Violation(f"{what}: column names/order differ after the round trip", got=got, want=names)
    for cn in names:
        tag, want = src[cn]
        col = back[cn]
        oc = build.cells(col)
        if len(oc) != len(want):
            raise Violation(f"{what}: row count differs", column=cn, got=len(oc), want=len(want))
        for j, (a, b) in enumerate(zip(oc, want)):
            if (a is None) != (b is None):
                raise Violation(f"{what}: missing positions differ after the round trip", column=cn, row=j, got=a, want=b,
                                dtype=build.dtype_tag(col))
            if not build.same_cell(a, b):
                raise Violation(f"{what}: value differs after the round trip", column=cn, row=j, got=a, want=b,
                                dtype=build.dtype_tag(col))
        if kinds[cn] in ("b", "i", "f", "s") and has_value[cn] and build.dtype_tag(col) != tag:
            raise Violation(f"{what}: dtype differs after the round trip", column=cn, got=build.dtype_tag(col), want=tag)


_PHASE = [""]
FILL = {"f": 1.5, "s": "zz", "u": "z", "d": "2001-02-03", "t": "2001-02-03T04:05:06", "ob": False, "obn": False, "i": 7, "b": True}


def check(plan, ctx):
    fp = plan["frame"]
    # history: another frame with the same column names (all strings) went through the same converters before
    prior = di.DataFrame({c["name"]: ["x", "y"] for c in fp["cols"]})
    di.DataFrame.from_pandas(prior.to_pandas())
    di.DataFrame.from_arrow(prior.to_arrow())
    di.DataFrame.from_json(prior.to_json())
    prior.to_list_of_dicts().to_data_frame()
    data = build.frame(fp, rid=None)
    _roundtrips(data, fp, ctx)
    # ---- history: edit cells in place (fill a missing slot, blank a filled one), then convert again ----
    fp2 = {"n": fp["n"], "cols": [dict(c, vals=list(c["vals"])) for c in fp["cols"]]}
    edited = 0
    for c in fp2["cols"]:
        kind, vals = c["kind"], c["vals"]
        col = data[c["name"]]
        miss = [j for j, v in enumerate(vals) if build.plan_isna(kind, v)]
        full = [j for j, v in enumerate(vals) if not build.plan_isna(kind, v)]
        if miss:
            j = miss[0]
            vals[j] = FILL[kind]
            col[j] = build.np_array(kind, [FILL[kind]])[0]
            edited += 1
        if full and kind in ("f", "s", "d", "t", "ob") and len(full) > 1:
            j = full[-1]
            vals[j] = gen.NA_VALUE[kind]
            col[j] = col.na_value
            edited += 1
    if edited:
        ctx.cls("reconverted_after_in_place_edit")
        _roundtrips(data, fp2, ctx, phase="after in-place edit: ")


def _roundtrips(data, fp, ctx, phase=""):
    _PHASE[0] = phase
    src = build.table(data)
    want = {c["name"]: [build.pcell(c["kind"], v) for v in c["vals"]] for c in fp["cols"]}
    for cn, (tag, cells_) in src.items():
        if not all(build.same_cell(a, b) for a, b in zip(cells_, want[cn])):
            raise RuntimeError(f"builder/edit mismatch in column {cn}: {cells_} vs {want[cn]}")
    before = build.snap_frame(data)
    names = list(src)
    n = fp["n"]
    kinds = {c["name"]: c["kind"] for c in fp["cols"]}
    missing = {c["name"]: [build.plan_isna(c["kind"], v) for v in c["vals"]] for c in fp["cols"]}
    has_value = {cn: not all(m) for cn, m in missing.items()}
    for c in fp["cols"]:
        ctx.cls("kind_" + c["kind"])
        if missing[c["name"]][0]:
            ctx.cls("first_missing_" + c["kind"])
        if all(missing[c["name"]]):
            ctx.cls("all_missing_column")

    def records_ok(what, recs):
        if len(recs) != n:
            raise Violation(f"{what}: not one record per row", got=len(recs), want=n)
        for i, r in enumerate(recs):
            if list(r.keys()) != names:
                raise Violation(f"{what}: record fields differ from the columns", row=i, got=list(r.keys()), want=names)
            for cn in names:
                if missing[cn][i]:
                    if r[cn] is not None:
                        raise Violation(f"{_PHASE[0]}{what}: missing value crossed the boundary as a sentinel, not null",
                                        column=cn, row=i, got=r[cn])
                elif r[cn] is None or (isinstance(r[cn], float) and r[cn] != r[cn]):
                    raise Violation(f"{_PHASE[0]}{what}: non-missing value became null", column=cn, row=i)

    # ---- ListOfDicts ----
    lod = ctx.call("to_list_of_dicts", data.to_list_of_dicts)
    if not isinstance(lod, di.ListOfDicts):
        raise Violation("to_list_of_dicts did not return a ListOfDicts")
    records_ok("to_list_of_dicts", [dict(x) for x in lod])
    if True:
        # the same list is exported as JSON text first (a read-only use): it still converts back to the frame
        ctx.call("ListOfDicts.to_json", lod.to_json)
        records_ok("to_list_of_dicts after the list was exported as JSON", [dict(x) for x in lod])
    back = ctx.call("ListOfDicts.to_data_frame", lod.to_data_frame)
    _compare_back("ListOfDicts", back, src, kinds, has_value)
    if n >= 2:
        # the same records with the keys of every other item in reverse insertion order: a record is a mapping, the
        # back-conversion must file each value under its key
        mixed = di.ListOfDicts([dict(reversed(list(x.items()))) if j % 2 else dict(x) for j, x in enumerate(lod)])
        back = ctx.call("ListOfDicts.to_data_frame (mixed key order)", mixed.to_data_frame)
        _compare_back("ListOfDicts with items in mixed key order", back, src, kinds, has_value)

    # ---- JSON ----
    text = ctx.call("to_json", data.to_json)
    try:
        parsed = json.loads(text)
    except Exception as e:
        raise Violation("to_json did not produce valid JSON", exc=str(e))
    records_ok("to_json", parsed)
    dtypes = {cn: ("datetime64[D]" if kinds[cn] == "d" else "datetime64[us]") for cn in names if kinds[cn] in ("d", "t")}
    back = ctx.call("from_json", lambda: di.DataFrame.from_json(text, dtypes=dtypes) if dtypes else di.DataFrame.from_json(text))
    _compare_back("JSON", back, src, kinds, has_value)
    if n >= 2:
        text2 = json.dumps([dict(reversed(list(o.items()))) if j % 2 else o for j, o in enumerate(parsed)], ensure_ascii=False)
        back = ctx.call("from_json (mixed key order)", lambda: di.DataFrame.from_json(text2, dtypes=dtypes) if dtypes else di.DataFrame.from_json(text2))
        _compare_back("JSON with objects in mixed key order", back, src, kinds, has_value)
    # the documented dtypes= argument naming every column whose dtype is one of the standard ones
    full = dict(dtypes)
    full.update({cn: {"s": str, "b": bool, "f": float, "i": int}[kinds[cn]] for cn in names if kinds[cn] in ("s", "b", "f", "i")})
    if len(full) > len(dtypes):
        back = ctx.call("from_json(dtypes=all)", lambda: di.DataFrame.from_json(text, dtypes=full))
        _compare_back("JSON with dtypes for every column", back, src, kinds, has_value)
        ctx.cls("from_json_with_dtypes_for_every_column")

    # ---- pandas ----
    pdf = ctx.call("to_pandas", data.to_pandas)
    if list(pdf.columns) != names or len(pdf) != n:
        raise Violation("to_pandas: shape or columns differ", columns=list(pdf.columns), rows=len(pdf))
    for cn in names:
        isna = [bool(x) for x in pdf[cn].isna().to_numpy()]
        if isna != missing[cn]:
            raise Violation(_PHASE[0] + "to_pandas: null positions differ from the missing positions", column=cn, got=isna,
                            want=missing[cn])
    back = ctx.call("from_pandas", lambda: di.DataFrame.from_pandas(pdf))
    _compare_back("pandas", back, src, kinds, has_value)
    if n >= 2:
        # the same pandas frame with its rows reversed (index labels no longer equal positions): rows are rows
        back = ctx.call("from_pandas (rows reversed)", lambda: di.DataFrame.from_pandas(pdf.iloc[::-1]))
        _compare_back("pandas with reversed rows", back, {k: (t, c[::-1]) for k, (t, c) in src.items()}, kinds, has_value)

    # ---- Arrow ----
    tab = ctx.call("to_arrow", data.to_arrow)
    if tab.column_names != names or tab.num_rows != n:
        raise Violation("to_arrow: shape or columns differ", columns=tab.column_names, rows=tab.num_rows)
    for cn, col in zip(tab.column_names, tab.columns):
        nulls = [bool(x) for x in col.is_null().to_numpy(zero_copy_only=False)]
        if nulls != missing[cn]:
            raise Violation(_PHASE[0] + "to_arrow: null positions differ from the missing positions", column=cn, got=nulls,
                            want=missing[cn])
    back = ctx.call("from_arrow", lambda: di.DataFrame.from_arrow(tab))
    _compare_back("Arrow", back, src, kinds, has_value)

    if build.snap_frame(data) != before:
        raise Violation("a converter changed its receiver")


KNOWN = {}
