# -*- coding: utf-8 -*-
"""C16 — ListOfDicts joins and aggregation follow first-match / partition rules."""

import functools

import dataiter as di
from hypothesis import strategies as st

from .runner import Violation

ID = "C16"
RULE = ("plan = left list + right list (0..7 items each quick / 0..15 thorough; empty operands over-weighted) sharing 1..2 keys "
        "with values from tiny pools incl. None and duplicates, same-name or (left,right) renamed keys, payload entries incl. "
        "colliding names, own id entry per side; op in {left, inner, semi, anti, full, aggregate}. Oracle: nested-loop reference "
        "(equality incl. None == None): exact expectation for left/inner/semi/anti, validity predicate for full_join; "
        "aggregate: dict grouping ordered by keys ascending with None last, summaries from the group's items in original "
        "order. Non-trivial: duplicate matching right key, None key, renamed key, or ≥ 2 groups with interleaved items. "
        "Distinct = plan hash.")
CASES = {"quick": 3000, "thorough": 16000}

KV = {"i": [None, 0, 1, 2, 0, 1, -1, -2], "s": [None, "x", "y"],
      "n": [None, 1, True, 1.0, 0, False, 2, 2.0],          # equal keys of different types: they match, and every item keeps its own

      "tu": [None, [2019, 1], [2019, 2], [2020, 1]]}      # tuple-valued keys (a (year, month) period): lists in the plan, tuples in the items      # hash(-1) == hash(-2) in CPython


@st.composite
def _plan(draw, max_items):
    op = draw(st.sampled_from(["left", "left", "inner", "semi", "anti", "full", "full", "aggregate", "aggregate"]))
    nk = draw(st.sampled_from([1, 1, 2]))
    kinds = [draw(st.sampled_from(["i", "s", "i", "s", "tu"] + ["n"] * (op != "aggregate"))) for _ in range(nk)]
    by = []
    # now and then the keys are named like attributes every dict has (a key is an entry, not an attribute)
    attrnames = draw(st.integers(0, 5)) == 0
    for j in range(nk):
        ln = ["items", "keys"][j] if attrnames else f"k{j}"
        rn = ln if (op == "aggregate" or draw(st.integers(0, 2))) else (["values", "copy"][j] if attrnames else f"r{j}")
        by.append([ln, rn])
    if nk == 2 and op in ("left", "inner", "semi", "anti") and draw(st.integers(0, 5)) == 0:
        # one left key compared with two right keys: both pairs must hold
        kinds[1] = kinds[0]
        by = [[by[0][0], "r0"], [by[0][0], "r1"]]
    size = st.one_of(st.sampled_from([0, 1]), st.integers(0, max_items))
    nl, nr = draw(size), draw(size)
    left, right = [], []
    for i in range(nl):
        it = {"_lid": i}
        for (ln, _), kd in zip(by, kinds):
            it[ln] = draw(st.sampled_from(KV[kd]))
        if draw(st.booleans()):
            it["p"] = draw(st.sampled_from([None, 1, "v"]))
        for (ln, rn) in by:
            if rn != ln and draw(st.integers(0, 2)) == 0:
                it[rn] = draw(st.sampled_from(["own", 5]))       # the left item's own entry named like the right key
        left.append(it)
    bare = op in ("left", "inner", "semi", "anti") and draw(st.integers(0, 3)) == 0
    for i in range(nr):
        it = {} if bare and draw(st.booleans()) else {"_rid": i}      # some right items consist of the keys only
        for (_, rn), kd in zip(by, kinds):
            it[rn] = draw(st.sampled_from(KV[kd]))
        if "_rid" in it and draw(st.booleans()):
            it["q"] = draw(st.sampled_from([None, 2, "w"]))
        if "_rid" in it and draw(st.integers(0, 3)) == 0:
            it["p"] = draw(st.sampled_from([None, 7, "z"]))     # collides with a left payload name
        if "_rid" in it and draw(st.integers(0, 3)) == 0:
            # an entry whose name is contained in (or contains) a key name
            it[draw(st.sampled_from(["k", "r", "0", "", "k0x", "1"]))] = draw(st.sampled_from([None, 3, "u"]))
        right.append(it)
    plan = {"op": op, "by": by, "left": left, "right": right}
    if op in ("left", "inner", "semi", "anti") and nl and all(a == b for a, b in by) and draw(st.integers(0, 5)) == 0:
        # a list joined with itself (the very same object on both sides): an item's first match is the first item with
        # its key values, which is not always the item itself
        plan["self_join"] = True
        plan["right"] = [dict(x) for x in left]
        return plan
    if op != "aggregate" and draw(st.integers(0, 4)) == 0:
        plan["right_grouped"] = True          # the right-hand list went through group_by(<its join keys>) before
    if op != "aggregate" and nr and draw(st.integers(0, 3)) == 0:
        edits = []
        for _ in range(draw(st.integers(1, 2))):
            (_, rn), kd = draw(st.sampled_from(list(zip(by, kinds))))
            edits.append([draw(st.integers(0, nr - 1)), rn, draw(st.sampled_from(KV[kd])), draw(st.booleans())])
        plan["edits"] = edits
    if op != "aggregate" and nl and "edits" not in plan and draw(st.integers(0, 4)) == 0:
        plan["alias"] = draw(st.integers(1, min(2, nl)))     # the first items occur a second time at the end (same dict objects)
    if op == "aggregate" and nl and draw(st.booleans()):
        # history: aggregate, derive a list without calling group_by again, aggregate the derived list
        plan["then"] = draw(st.sampled_from(["filter", "head", "sort", "tail", "reverse"]))
    return plan


def strategy(tier):
    return _plan(7 if tier == "quick" else 15)


def _first_match(plan):
    by = plan["by"]
    out = []
    for li in plan["left"]:
        m = None
        for j, ri in enumerate(plan["right"]):
            if all(_eq(li[a], ri[b]) for a, b in by):
                m = j
                break
        out.append(m)
    return out


def _eq(a, b):
    return (a is None) == (b is None) and a == b          # key equality is Python equality: 1, 1.0 and True are one key


def _same(a, b):
    return type(a) is type(b) and a == b


def nontrivial(plan):
    plan = _norm(plan)
    L, R = plan["left"], plan["right"]
    if plan["op"] == "aggregate":
        keys = [tuple(x[a] for a, _ in plan["by"]) for x in L]
        if len(set(keys)) < 2:
            return False
        if any(v is None for k in keys for v in k):
            return True
        last = {}
        for i, k in enumerate(keys):
            if k in last and last[k] != i - 1:
                return True
            last[k] = i
        return False
    if not L or not R:
        return False
    if any(a != b for a, b in plan["by"]):
        return True
    if any(x[a] is None for x in L for a, _ in plan["by"]) or any(x[b] is None for x in R for _, b in plan["by"]):
        return True
    m = _first_match(plan)
    rk = [tuple(x[b] for _, b in plan["by"]) for x in R]
    return any(j is not None and rk.count(rk[j]) > 1 for j in m)


def _typed(d):
    return {k: (type(v).__name__, v) for k, v in d.items()}


def _fresh(name):
    """an equal string that is another object (as a name read from a file or built at run time is): names are compared
    by value"""
    return "".join(list(name)) if len(name) > 1 else name.encode("utf-8").decode("utf-8")


def _by_arg(plan):
    return [_fresh(a) if a == b else (_fresh(a), _fresh(b)) for a, b in plan["by"]]


def _tuples(item):
    return {k: tuple(v) if isinstance(v, list) else v for k, v in item.items()}


def _norm(plan):
    plan = dict(plan, left=[_tuples(x) for x in plan["left"]], right=[_tuples(x) for x in plan["right"]])
    if plan.get("edits"):
        plan["edits"] = [[i, k, tuple(v) if isinstance(v, list) else v, w] for i, k, v, w in plan["edits"]]
    return plan


def check(plan, ctx):
    plan = _norm(plan)
    op = plan["op"]
    ctx.cls("op_" + op)
    L = di.ListOfDicts([dict(x) for x in plan["left"]])
    if op == "aggregate":
        return _check_aggregate(plan, L, ctx)
    if plan.get("alias"):
        L = L + L.head(plan["alias"])                       # aliased items: the very same dicts at two positions
        plan = dict(plan, left=plan["left"] + plan["left"][:plan["alias"]])
        ctx.cls("aliased_left_items")
    R = di.ListOfDicts([dict(x) for x in plan["right"]])
    if plan.get("self_join"):
        R = L
        ctx.cls("list_joined_with_itself")
    if plan.get("right_grouped"):
        R.group_by(*[b for _, b in plan["by"]])        # marks the list itself; a join still takes the FIRST match
        ctx.cls("right_list_was_grouped_by_the_join_keys")
    _check_join(plan, L, R, ctx)
    if plan.get("edits") and plan["right"]:
        # history: the same right-hand list object is edited in place (length unchanged) and used in a second join
        p2 = dict(plan, right=[dict(x) for x in plan["right"]])
        for i, key, val, whole in plan["edits"]:
            i %= len(p2["right"])
            if whole:
                new = dict(p2["right"][i]); new[key] = val
                p2["right"][i] = new
                R[i] = dict(new)                               # item replaced
            else:
                p2["right"][i][key] = val
                R[i][key] = val                                # entry of the same item object edited
        L2 = di.ListOfDicts([dict(x) for x in p2["left"]])
        ctx.cls("joined_again_after_in_place_edit_of_the_right_list")
        _check_join(p2, L2, R, ctx, phase="second join after an in-place edit of the right-hand list: ")


def _check_join(plan, L, R, ctx, phase=""):
    op = plan["op"]
    by2 = [b for _, b in plan["by"]]
    match = _first_match(plan)
    out = ctx.call(f"{op}_join", getattr(L, f"{op}_join"), R, *_by_arg(plan))
    if not isinstance(out, di.ListOfDicts):
        raise Violation(f"{op}_join did not return a ListOfDicts")
    if R is not L and [dict(x) for x in R] != plan["right"]:          # (left/inner joins edit the receiver's items: C17)
        raise Violation(f"{op}_join changed its right-hand argument")
    if any(j is not None for j in match):
        ctx.cls("has_match")
    if any(j is not None and any(type(plan["left"][i][a]) is not type(plan["right"][j][b]) for a, b in plan["by"])
           for i, j in enumerate(match)):
        ctx.cls("match_between_equal_keys_of_different_types")
    if len({a for a, _ in plan["by"]}) < len(plan["by"]):
        ctx.cls("one_left_key_paired_with_two_right_keys")
    if not plan["left"] or not plan["right"]:
        ctx.cls("empty_operand")

    def merged(i):
        d = dict(plan["left"][i])
        if match[i] is not None:
            d.update({k: v for k, v in plan["right"][match[i]].items() if k not in by2})
        return d

    if op == "left":
        want = [merged(i) for i in range(len(plan["left"]))]
    elif op == "inner":
        want = [merged(i) for i in range(len(plan["left"])) if match[i] is not None]
    elif op == "semi":
        want = [dict(plan["left"][i]) for i in range(len(plan["left"])) if match[i] is not None]
    elif op == "anti":
        want = [dict(plan["left"][i]) for i in range(len(plan["left"])) if match[i] is None]
    else:
        return _check_full(plan, out)
    got = [dict(x) for x in out]
    if [_typed(x) for x in got] != [_typed(x) for x in want]:
        raise Violation(f"{phase}{op}_join differs from the first-match reference", got=got, want=want)
    if op in ("semi", "anti") and [dict(x) for x in L] != plan["left"]:
        raise Violation(f"{op}_join changed the items of its receiver")


def _check_full(plan, out):
    L, R, by = plan["left"], plan["right"], plan["by"]
    seen_l, seen_r = set(), set()
    for j, item in enumerate(out):
        item = dict(item)
        li, ri = item.get("_lid"), item.get("_rid")
        if li is None and ri is None:
            raise Violation("full_join: item that stems from neither side", index=j, item=item)
        if li is not None:
            seen_l.add(li)
        if ri is not None:
            seen_r.add(ri)
        if li is not None and ri is not None:
            for a, b in by:
                if not _eq(L[li][a], R[ri][b]):
                    raise Violation("full_join: merged items with unequal keys", item=item, left=L[li], right=R[ri])
        for k, v in item.items():
            srcs = []
            if li is not None and k in L[li]:
                srcs.append(L[li][k])
            if ri is not None and k in R[ri]:
                srcs.append(R[ri][k])
            if not any(_same(v, s) for s in srcs):
                raise Violation("full_join: entry not traceable to a source item", key=k, value=v, item=item)
        if li is not None:
            # a merged item may carry the (equal) key values under either side's key names
            alias = {a: b for a, b in by}
            lost = [k for k in L[li] if k not in item and not (k in alias and ri is not None and alias[k] in item)]
            if lost:
                raise Violation("full_join: left entries lost", lost=lost, item=item, left=L[li])
    want_l = [x["_lid"] for x in L]
    got_l = [dict(x)["_lid"] for x in out if dict(x).get("_lid") is not None]
    # left items keep their original order; a left item may be repeated (adjacent) once per extra matching right item
    collapse = lambda seq: [x for i, x in enumerate(seq) if i == 0 or x != seq[i - 1]]
    if collapse(got_l) != collapse(want_l):
        raise Violation("full_join: left items are not in their original order", got=got_l, want=want_l)
    if seen_l != set(x["_lid"] for x in L):
        raise Violation("full_join: left items lost", missing=sorted(set(x["_lid"] for x in L) - seen_l))
    if seen_r != set(range(len(R))):
        raise Violation("full_join: right items lost", missing=sorted(set(range(len(R))) - seen_r))


def _check_aggregate(plan, L, ctx):
    by = [a for a, _ in plan["by"]]
    items = plan["left"]
    grouped = L.group_by(*by)
    _check_aggregate_once(by, items, grouped, ctx, "")
    if plan.get("then"):
        t = plan["then"]
        if t == "filter":
            derived, ditems = grouped.filter(lambda x: x["_lid"] % 2 == 0), [x for x in items if x["_lid"] % 2 == 0]
        elif t == "head":
            derived, ditems = grouped.head(2), items[:2]
        elif t == "tail":
            derived, ditems = grouped.tail(2), items[len(items) - min(2, len(items)):]
        elif t == "reverse":
            derived, ditems = grouped.reverse(), items[::-1]
        else:
            derived, ditems = grouped.sort(_lid=-1), sorted(items, key=lambda x: -x["_lid"])
        ctx.cls("aggregate_again_on_derived_list")
        _check_aggregate_once(by, ditems, derived, ctx, f"after {t} of the grouped list: ")


def _check_aggregate_once(by, items, grouped, ctx, phase):
    L = grouped
    lazy = {}
    out = ctx.call(phase + "aggregate", lambda: grouped.aggregate(
        n=len, ids=lambda g: g.pluck("_lid"),
        # summary functions that do not consume their argument at once: a generator, a map, a kept reference
        lz=lambda g: lazy.setdefault(len(lazy), (x["_lid"] for x in g)) and 0,
        mp=lambda g: lazy.setdefault(len(lazy), map(lambda x: x["_lid"], g)) and 0,
        kp=lambda g: lazy.setdefault(len(lazy), g) and 0))
    groups = {}
    for it in items:
        groups.setdefault(tuple((type(it[k]).__name__, it[k]) for k in by), []).append(it)
    def cmp(x, y):
        for a, b in zip(x, y):
            a, b = a[1], b[1]
            if a is None or b is None:
                c = (a is None) - (b is None)
            else:
                c = (a > b) - (a < b)
            if c:
                return c
        return 0
    order = sorted(groups, key=functools.cmp_to_key(cmp))
    want = []
    for k in order:
        d = {name: v[1] for name, v in zip(by, k)}
        d["n"] = len(groups[k])
        d["ids"] = [x["_lid"] for x in groups[k]]
        d["lz"] = d["mp"] = d["kp"] = 0
        want.append(d)
    # what the lazy summaries see when they are finally consumed: still their own group's items (three per group, in
    # the order the functions were called)
    seen = [[x["_lid"] for x in v] if isinstance(v, di.ListOfDicts) else list(v) for _, v in sorted(lazy.items())]
    want_seen = [d["ids"] for d in want for _ in range(3)]
    if sorted(seen) != sorted(want_seen):
        raise Violation(phase + "aggregate: a summary function that keeps (or lazily reads) its argument sees other items than its group's",
                        got=seen, want=want_seen)
    got = [dict(x) for x in out]
    if [_typed(x) for x in got] != [_typed(x) for x in want]:
        raise Violation(phase + "aggregate differs from the dict-grouping reference", got=got, want=want)
    # no summary functions at all: still one item per group, in key order with None last
    bare = ctx.call(phase + "aggregate()", lambda: grouped.aggregate())
    want0 = [{k: v for k, v in d.items() if k in by} for d in want]
    if [_typed(dict(x)) for x in bare] != [_typed(x) for x in want0]:
        raise Violation(phase + "aggregate() without summary functions is not one item per group in key order",
                        got=[dict(x) for x in bare], want=want0)
    if [dict(x) for x in L] != items:
        raise Violation(phase + "aggregate changed the items of its receiver")
    ctx.cls(f"groups_{min(len(order), 4)}")


KNOWN = {}
