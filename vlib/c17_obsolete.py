# -*- coding: utf-8 -*-
"""C17 — ListOfDicts shared-dict discipline: isolation and obsolescence (generated histories)."""

import contextlib
import io
import random

import dataiter as di
from hypothesis import strategies as st

from .runner import Violation

ID = "C17"
RULE = ("plan = two independent initial lists (0..5 and 0..4 items) + history of ≤ 25 steps (≤ 60 thorough) interpreted over a growing pool of lists; each "
        "step picks a pooled receiver (and a pooled second operand for binary ops) and an op: share (filter, sort, unique, head, "
        "tail, slice, copy, reverse, sample, semi/anti join, append, extend, insert, +, *, drop_na, clear), deepcopy, full_join, edit (modify, "
        "modify_if, rename, select, unselect, fill_missing_keys, inner_join, left_join) or use (pluck / keys / to_json). Model: "
        "derivation tree with obsolete / warned flags and item-origin sets. Invariants after every step: real _obsolete flag == "
        "model for every pooled list; the warning is printed exactly once iff the receiver was obsolete and unwarned; after a "
        "non-modifying op every pooled list's items equal their snapshots; after an edit every list sharing no item objects "
        "with the receiver is unchanged; edit results and deep copies are not obsolete. Non-trivial: an edit on a list at "
        "derivation depth ≥ 2, or an edit on one of two branches of a list, or a deepcopy between derivation and edit. "
        "Distinct = plan hash.")
CASES = {"quick": 1500, "thorough": 8000}

WARNING = "Warning: A successor has modified the shared dicts"

SHARE = ["filter", "sort", "unique", "head", "tail", "slice", "copy", "reverse", "sample", "semi_join", "anti_join",
         "append", "extend", "insert", "add", "mul", "drop_na", "clear", "group_by"]
EDIT = ["modify", "modify_if", "modify_nested", "rename", "select", "unselect", "fill", "fill_all", "inner_join", "left_join"]
FAILING = ["modify_failing"]
USE = ["pluck", "keys", "to_json", "aggregate_editing"]


@st.composite
def _plan(draw, max_steps):
    n = draw(st.integers(0, 5))
    items = []
    for i in range(n):
        it = {"_id": i, "k": draw(st.sampled_from([None, 0, 1]))}
        it["kk"] = it["k"]                       # the same key under another name, for joins by (key_in_self, key_in_other)
        if draw(st.booleans()):
            it["p"] = draw(st.sampled_from([None, 1, "v"]))
        if draw(st.integers(0, 2)) == 0:
            it["geo"] = draw(st.sampled_from([{"x": 1}, {"x": 2, "tags": ["a"]}, {"inner": {"y": 0}}]))
        if draw(st.integers(0, 3)) == 0:
            it["bx"] = draw(st.sampled_from([1, 2]))        # becomes a Box(v): an instance of a user class (hashable, yet mutable)
        items.append(it)
    items2 = []
    for i in range(draw(st.integers(0, 4))):
        it = {"_id": 500 + i, "k": draw(st.sampled_from([None, 0, 1]))}
        it["kk"] = it["k"]
        if draw(st.integers(0, 5)) == 0:
            del it["k"]                            # ragged: this item lacks the key most operations use
        for extra in ("p", "q", "v"):
            if draw(st.booleans()):
                it[extra] = draw(st.sampled_from([None, 2, "w"]))
        items2.append(it)
    steps = []
    for _ in range(draw(st.integers(1, max_steps))):
        kind = draw(st.sampled_from(["share", "share", "share", "share", "edit", "edit", "edit", "use", "deepcopy", "forget"]))
        if kind == "share":
            op = draw(st.sampled_from(SHARE))
        elif kind == "edit":
            op = draw(st.sampled_from(EDIT + FAILING))
        elif kind == "use":
            op = draw(st.sampled_from(USE))
        elif kind == "forget":
            op = "forget"
        else:
            op = draw(st.sampled_from(["deepcopy", "deepcopy", "full_join"]))
        steps.append({"op": op, "i": draw(st.integers(0, 30)), "j": draw(st.integers(0, 30)),
                      "a": draw(st.integers(0, 3))})
    return {"items": items, "items2": items2, "steps": steps, "subclass": draw(st.integers(0, 3)) == 0,
            "tuple_by": draw(st.integers(0, 2)) == 0}


def strategy(tier):
    return _plan(25 if tier == "quick" else 60)


class Node:
    def __init__(self, real, parent, origins, depth):
        self.real = real
        self.parent = parent
        self.origins = origins
        self.depth = depth
        self.obsolete = False
        self.warned = False
        self.children = 0


def _simulate(plan, act=None):
    """Shared walk of the model; `act(node, other, step, kind)` performs the real call when given."""
    return None


def nontrivial(plan):
    # evaluated on the model only (no real calls): replays the derivation structure
    depth = [0, 0]
    parent = [None, None]
    children = {0: 0, 1: 0}
    edited_child_of = set()
    dc_after_derive = False
    hit = False
    n = 2
    for s in plan["steps"]:
        i = s["i"] % n
        op = s["op"]
        if op in USE or op in FAILING:
            continue
        if op in EDIT:
            if depth[i] >= 2:
                hit = True
            p = parent[i]
            if p is not None and children.get(p, 0) >= 2:
                hit = True
            if dc_after_derive:
                hit = True
            depth.append(depth[i] + 1); parent.append(i)
        elif op in ("deepcopy", "full_join"):
            if depth[i] >= 1:
                dc_after_derive = True
            depth.append(0); parent.append(None)
        else:
            depth.append(depth[i] + 1); parent.append(i)
            children[i] = children.get(i, 0) + 1
        n += 1
    return hit


class Box:
    """a value of a user-defined class: hashable by identity like every plain object, and mutable"""
    def __init__(self, v):
        self.v = v


def _boxed(item):
    return {k: (Box(v) if k == "bx" else v) for k, v in item.items()}


def _plain(x):
    if isinstance(x, Box):
        return ("Box", x.v)
    if isinstance(x, dict):
        return {k: _plain(v) for k, v in x.items()}
    if isinstance(x, (list, tuple)):
        return [_plain(v) for v in x]
    return x


def _snap(lst):
    """Deep, plain snapshot of the items (nested dicts / lists are part of an item's contents)."""
    return [_plain(x) for x in list.__iter__(lst)]


def _has_k(lst):
    return all("k" in x for x in list.__iter__(lst))


class Listings(di.ListOfDicts):
    """A user-defined subclass: every derived list is built with self.__class__, so whole histories stay in it."""


def check(plan, ctx):
    cls = Listings if plan.get("subclass") else di.ListOfDicts
    if plan.get("subclass"):
        ctx.cls("lists_of_a_user_subclass")
    _BY[0] = ("k", "kk") if plan.get("tuple_by") else "k"
    if plan.get("tuple_by"):
        ctx.cls("joins_by_key_name_pairs")
    root = cls([_boxed(x) for x in plan["items"]])
    if any("bx" in x for x in plan["items"]):
        ctx.cls("items_hold_instances_of_a_user_class")
    root2 = cls([dict(x) for x in plan.get("items2", [])])
    pool = [Node(root, None, {0}, 0), Node(root2, None, {1}, 0)]
    next_origin = [2]
    fresh_id = [1000]

    def fresh_item():
        fresh_id[0] += 1
        return {"_id": fresh_id[0], "k": fresh_id[0] % 2, "kk": fresh_id[0] % 2}

    forgotten = []
    for stepno, s in enumerate(plan["steps"]):
        node = pool[s["i"] % len(pool)]
        other = pool[s["j"] % len(pool)]
        op, a = s["op"], s["a"]
        if op == "forget" and a % 2 and pool[-1].parent in pool:
            node = pool[-1].parent                 # the intermediate list of the most recent chain
        if op == "forget":
            # the program drops its last reference to an intermediate list (e.g. a method chain, or a variable
            # that is re-assigned); the lists derived from it and the lists it was derived from live on
            if node.parent is not None and len(pool) > 2:
                pool.remove(node)
                forgotten.append(node)          # the model keeps the node (ancestry), the real object goes
                node.real = None                # reference counting frees it at once if nothing else holds it
                ctx.cls("op_forget")
            continue
        x, y = node.real, other.real
        needs_k = op in ("semi_join", "anti_join", "inner_join", "left_join", "full_join", "sort", "unique", "modify_if", "aggregate_editing")
        may_raise = False
        ykey = "kk" if (_BY[0] != "k" and "join" in op) else "k"
        if needs_k and not (_has_k(x) and (all(ykey in it for it in list.__iter__(y)) or "join" not in op)):
            if op in SHARE:
                may_raise = True                  # a KeyError is fine, but nothing may have been touched
            else:
                ctx.excl("step needs key 'k' in every item")
                continue
        snaps = [_snap(n.real) for n in pool]
        origins_before = [set(n.origins) for n in pool]
        recv_origins_before = set(node.origins)
        expect_warning = node.obsolete and not node.warned
        # full_join works on deep copies of both operands: taking the copy is a use of the right-hand list too
        expect_other = op == "full_join" and other is not node and other.obsolete and not other.warned
        if op == "modify_failing":
            # an editing call that raises half-way (its function fails on one item): whatever it did to the items it
            # reached, it is not a completed edit - no list changes its obsolete state, lists that share nothing with the
            # receiver keep their contents, and a later successful edit marks the whole chain as usual
            if len(x) == 0:
                continue
            seen = [0]
            def failing(it, k=a % len(x)):
                seen[0] += 1
                if seen[0] - 1 == k:
                    raise ZeroDivisionError("planned failure")
                return a
            buf = io.StringIO()
            with contextlib.redirect_stdout(buf):
                try:
                    x.modify(v=failing)
                    raise Violation("modify swallowed the exception of its function", step=stepno)
                except ZeroDivisionError:
                    pass
            nwarn = buf.getvalue().count(WARNING)
            if nwarn != (1 if expect_warning else 0):
                raise Violation("obsolescence warning not printed exactly once on the next use of an obsolete list",
                                step=stepno, op=op, printed=nwarn, expected=int(expect_warning))
            if expect_warning:
                node.warned = True
            for idx, n in enumerate(pool):
                if bool(n.real._obsolete) != n.obsolete:
                    raise Violation("obsolete flag differs from the derivation model (after an editing call that raised)",
                                    step=stepno, list=idx, real=bool(n.real._obsolete), model=n.obsolete)
                if not (origins_before[idx] & recv_origins_before) and _snap(n.real) != snaps[idx]:
                    raise Violation("a failing edit was observed through a list that shares no items with the receiver", step=stepno, list=idx)
            ctx.cls("op_modify_failing")
            continue
        buf = io.StringIO()
        random.seed(a)
        with contextlib.redirect_stdout(buf):
            try:
                res = _apply(op, x, y, a, fresh_item)
            except Exception as e:
                if not may_raise:
                    raise Violation(f"{op} raised", step=stepno, exc=f"{type(e).__name__}: {e}")
                res = None
        if may_raise:
            # the call lies outside the documented domain (an item lacks the key): whether it raised or not, a
            # non-modifying method must not have changed any item of any list
            if buf.getvalue().count(WARNING) and expect_warning:
                node.warned = True
            for idx, (n, before) in enumerate(zip(pool, snaps)):
                if _snap(n.real) != before:
                    raise Violation("a non-modifying method changed item contents (while failing on a missing key)",
                                    step=stepno, op=op, list=idx, before=before, after=_snap(n.real))
            ctx.cls("share_op_on_missing_key")
            if res is None or not isinstance(res, di.ListOfDicts):
                continue
            may_raise = False
        printed = buf.getvalue()
        nwarn = printed.count(WARNING)
        if printed.replace(WARNING + "\n", "") != "":
            raise Violation("unexpected output", step=stepno, op=op, text=printed)
        if nwarn != (1 if expect_warning else 0) + (1 if expect_other else 0):
            raise Violation("obsolescence warning not printed exactly once on the next use of an obsolete list",
                            step=stepno, op=op, printed=nwarn, expected=int(expect_warning) + int(expect_other),
                            obsolete=node.obsolete, warned=node.warned)
        if expect_warning:
            node.warned = True
        if expect_other:
            other.warned = True
        ctx.cls("op_" + op)

        if op in USE:
            new = None
        elif op in ("deepcopy", "full_join"):
            # full_join is built from deep copies of both operands: its result shares nothing with either, neither
            # becomes obsolete, and whatever is done to the result later can never be seen through them
            new = Node(res, None, {next_origin[0]}, 0)
            next_origin[0] += 1
            if op == "full_join" and (len(x) == 0 or len(y) == 0):
                ctx.cls("full_join_with_empty_operand")
        elif op in EDIT:
            if op in ("rename", "select"):
                # new top-level dicts, but nested values are still the same objects
                origins = set(node.origins) | {next_origin[0]}
                next_origin[0] += 1
            else:
                origins = set(node.origins)
            if op in ("inner_join", "left_join"):
                # the right-hand items' values (incl. nested objects) were copied by reference into the
                # receiver's dicts: every list holding those dicts may now share nested objects with `other`
                shared = set(other.origins)
                for m in pool:
                    if m.origins & node.origins:
                        m.origins |= shared
                origins = set(node.origins)
            new = Node(res, node, origins, node.depth + 1)
            p = node
            while p is not None:
                p.obsolete = True
                p = p.parent
            if node.depth >= 2:
                ctx.cls("edit_at_depth>=2")
        elif op == "group_by" and res is x:
            new = None                             # documented: marks and returns the receiver itself
        else:
            origins = set(node.origins)
            if op in ("extend", "add"):
                origins |= other.origins
            new = Node(res, node, origins, node.depth + 1)
            node.children += 1
        if new is not None:
            if not isinstance(new.real, di.ListOfDicts):
                raise Violation(f"{op} did not return a ListOfDicts", step=stepno)
            pool.append(new)
            if op in EDIT or op in ("deepcopy", "full_join"):
                if new.real._obsolete:
                    raise Violation(f"result of {op} reports itself obsolete", step=stepno)

        # invariants over the whole pool
        for idx, n in enumerate(pool):
            if bool(n.real._obsolete) != n.obsolete:
                raise Violation("obsolete flag differs from the derivation model", step=stepno, op=op, list=idx,
                                real=bool(n.real._obsolete), model=n.obsolete, depth=n.depth)
        for idx, (n, before) in enumerate(zip(pool, snaps)):
            # sharing is judged by the state *before* the call: a join must not touch a right-hand
            # argument that shared nothing with the receiver when it was called
            if op in EDIT and (origins_before[idx] & recv_origins_before):
                continue
            if _snap(n.real) != before:
                what = "a non-modifying method changed item contents" if op not in EDIT else \
                    "an edit was observed through a list that shares no items with the receiver"
                raise Violation(what, step=stepno, op=op, list=idx, before=before, after=_snap(n.real))
        if op == "deepcopy":
            ctx.cls("deepcopy")


_BY = ["k"]


def _apply(op, x, y, a, fresh_item):
    if op == "filter": return x.filter(lambda it: it.get("k") == (a % 2))
    if op == "sort": return x.sort(k=1 if a % 2 else -1)
    if op == "unique": return x.unique("k")
    if op == "head": return x.head(a)
    if op == "tail": return x.tail(a)
    if op == "slice": return x[a % 2::1 + a % 2]
    if op == "copy": return x.copy()
    if op == "reverse": return x.reverse()
    if op == "sample": return x.sample(a)
    if op == "semi_join": return x.semi_join(y, _BY[0])
    if op == "anti_join": return x.anti_join(y, _BY[0])
    if op == "append": return x.append(fresh_item())
    if op == "extend": return x.extend(y)
    if op == "insert": return x.insert(a, fresh_item())
    if op == "add": return x + y
    if op == "mul": return x * (a % 3)
    if op == "drop_na": return x.drop_na("k", "p")
    if op == "clear": return x.clear()
    if op == "group_by": return x.group_by("k")
    if op == "deepcopy": return x.deepcopy()
    if op == "full_join": return x.full_join(y, _BY[0])
    if op == "modify": return x.modify(v=lambda it: a)
    if op == "modify_nested":
        def touch(it):
            g = it.get("geo")
            if isinstance(g, dict):
                g["x"] = 100 + a              # edits the nested dict in place
                if isinstance(g.get("tags"), list):
                    g["tags"].append(a)
            if isinstance(it.get("bx"), Box):
                it["bx"].v = 100 + a          # edits the object in place
            return a
        return x.modify(w=touch)
    if op == "modify_if": return x.modify_if(lambda it: it["k"] == a % 2, k=lambda it: 5 + a)
    if op == "rename": return x.rename(z="p") if a % 2 else x.rename(p="z")
    if op == "select": return x.select("_id", "k", "kk", "p", "geo")
    if op == "unselect": return x.unselect("p", "v")
    if op == "fill": return x.fill_missing_keys(p=a)
    if op == "fill_all": return x.fill_missing_keys()
    if op == "inner_join": return x.inner_join(y, _BY[0])
    if op == "left_join":
        if a % 3 == 0:
            # the right-hand list carries nothing but the join key (a fresh list, not one of the pool)
            yk = "kk" if _BY[0] != "k" else "k"
            y = di.ListOfDicts([{yk: it[yk]} for it in list.__iter__(y)])
        return x.left_join(y, _BY[0])
    if op == "aggregate_editing":
        # a summary function that edits the group list it was handed (its own copy to play with): the aggregated list,
        # its ancestors and relatives keep their items
        g0 = x._group_keys
        try:
            return list(x.group_by("k").aggregate(n=lambda g: len(g.modify(w=lambda it: a).unselect("p"))))
        finally:
            x._group_keys = g0
    if op == "pluck": return x.pluck("_id")
    if op == "keys": return list(x.keys())
    if op == "to_json": return x.to_json()
    if op == "len": return len(x)
    raise AssertionError(op)


KNOWN = {}
