# -*- coding: utf-8 -*-
"""
Coverage-guided leg (thorough tier): atheris / libFuzzer drives the *same* Hypothesis strategy and check function
through `test.hypothesis.fuzz_one_input`, with dataiter instrumented for coverage.  The oracle therefore sits inside
the fuzz target; a failure is still a plan and is written as a replay file.

    python -m vlib.fuzz <pid> <runs> <seed> <out.json> [corpus-dir]        (run by runner.fuzz_leg in its own process)
"""
import json
import os
import sys
import tempfile
import time


def main(argv):
    pid, runs, seed_value, out = argv[0], int(argv[1]), int(argv[2]), argv[3]
    corpus = argv[4] if len(argv) > 4 else tempfile.mkdtemp(prefix="corpus-")
    root = os.path.dirname(os.path.dirname(os.path.abspath(__file__)))
    sys.path.insert(0, root)
    deps = os.path.join(root, ".deps")
    if os.path.isdir(deps):
        sys.path.insert(1, deps)
    import atheris
    from vlib import runner
    import importlib
    work = tempfile.mkdtemp(prefix=f"verif-fuzz-{pid}-")
    os.environ["DATAITER_USE_NUMBA"] = "false"
    sys.path.insert(0, os.environ.get("VERIF_REPO", "/repo"))
    with atheris.instrument_imports(include=["dataiter"]):
        import dataiter  # noqa: first import happens here so that every dataiter module is instrumented
    runner.setup_env(False, work)
    mod = importlib.import_module("vlib." + runner.MODULES[pid])
    known = [k["id"] for k in runner.load_known(pid)]
    ctx = runner.Ctx(os.path.join(work, "files"))
    os.makedirs(ctx.tmpdir, exist_ok=True)
    from hypothesis import HealthCheck, given, settings
    state = {"execs": 0, "violation": None, "nt": set(), "harness": None, "t0": time.time()}

    @settings(deadline=None, database=None, suppress_health_check=list(HealthCheck))
    @given(mod.strategy("quick"))
    def test(plan):
        state["execs"] += 1
        if state["execs"] % 1000 == 0:
            finish()
        try:
            if mod.nontrivial(plan):
                state["nt"].add(runner.plan_hash(plan))
            runner.run_plan(mod, plan, ctx, known)
        except runner.Violation as v:
            state["violation"] = {"plan": runner.enc(plan), "what": v.what,
                                  "detail": {k: runner.short(x, 1500) for k, x in v.detail.items()}}
            finish()
            os._exit(1)

    def finish():
        with open(out, "w") as f:
            json.dump({"fuzz_execs": state["execs"], "violation": state["violation"], "nt_hashes": sorted(state["nt"]),
                       "wall_s": round(time.time() - state["t0"], 2), "corpus_files": len(os.listdir(corpus))}, f)

    import atexit
    atheris.Setup([sys.argv[0], f"-runs={runs}", f"-seed={seed_value}", "-max_len=2048", "-print_final_stats=0", "-verbosity=0",
                   corpus], test.hypothesis.fuzz_one_input)
    try:
        atheris.Fuzz()
    finally:
        finish()


if __name__ == "__main__":
    main(sys.argv[1:])
