# -*- coding: utf-8 -*-
"""C12 — writing a file and reading it back reproduces the data frame (and ListOfDicts)."""

import bz2
import gzip
import lzma
import os
import pathlib

import numpy as np
import dataiter as di
from hypothesis import strategies as st

from . import build, gen
from .runner import Violation

ID = "C12"
RULE = ("plan = object (DataFrame with 1..6 rows (1..15 thorough) x 1..4 columns, or ListOfDicts) x format {pickle, npz, parquet, "
        "csv, json} x suffix {'', .gz, .bz2, .xz} x options (csv: sep in {',', ';', tab, '|'}, header, encoding in {utf-8, "
        "latin-1, utf-16}; json: encoding, indent; npz: compress). Strings contain delimiters, quotes, newlines, CRLF, Unicode, "
        "leading/trailing blanks and leading missing values. Representability (by construction, counted): CSV string columns "
        "carry a value that cannot be parsed as number/bool/date, CSV datetimes lie in 1700..2200, a one-column CSV frame has no "
        "missing cell, JSON dates are read back with dtypes=, text is restricted to the encoding's repertoire. Oracle: read-back "
        "object has the same names/order, row count, cells (CSV/JSON: ints ≡ integral floats numerically) and missing positions, "
        "same dtypes for the binary formats; compressed suffixes start with the format's magic bytes and decompress (stdlib) to "
        "the bytes of an uncompressed write with the same options. Non-trivial: a compressed suffix or a non-default option, "
        "together with a string cell containing a special character or a leading missing value. Distinct = plan hash.")
CASES = {"quick": 1500, "thorough": 6000}

MAGIC = {".gz": b"\x1f\x8b", ".bz2": b"BZh", ".xz": b"\xfd7zXZ\x00"}
OPENERS = {".gz": gzip.open, ".bz2": bz2.open, ".xz": lzma.open}
# (the last entries: characters str.splitlines() treats as line boundaries although CSV does not)
SPECIAL = ["a,b", 'q"q', "l\nm", "r\r\ns", "c\rd", "t\tu", "p;q", "v|w", " lead", "trail ", "'", "é", "日本", "😀", "x" * 60,
           "v\x0bt", "f\x0cf", "s\x1cs", "g\x1dg", "r\x1er", "n\x85l", "u\u2028l", "p\u2029s",
           "C:\\temp\\new", "tail\\", "\\", 'b\\"q', "\\n"]          # backslashes are ordinary characters
LATIN = ["a,b", 'q"q', "l\nm", "r\r\ns", "c\rd", "t\tu", "p;q", "v|w", " lead", "trail ", "'", "é", "ÿ",
         "v\x0bt", "f\x0cf", "s\x1cs", "n\x85l", "C:\\temp", "tail\\"]
NAMES = ["a", "b", "c d", "é", "x,y", "n1", 'q"', "items", " a", "a ", " b ", "A", "back\\slash", "end\\"]      # padded names differ from unpadded ones

KINDS = {
    "pickle": ["f", "i", "b", "s", "u", "d", "t", "td", "o", "ob", "f32", "i32"],
    "npz": ["f", "i", "b", "s", "u", "d", "t", "td", "o", "ob", "f32", "i32"],
    "parquet": ["f", "i", "b", "s", "d", "t", "ob"],
    "csv": ["f", "i", "b", "s", "d", "t", "f32"],
    "json": ["f", "i", "b", "s", "d", "t", "ob", "f32"],
}
CSV_T = [None, "1970-01-01T00:00:00.000001", "1969-12-31T23:59:59", "2020-12-31T12:00:00", "1700-01-01T00:00:00",
         "2199-12-31T23:59:59.999999"]


def _text(encoding):
    if encoding == "latin-1":
        return st.text(alphabet=st.characters(min_codepoint=32, max_codepoint=255), max_size=6)
    return st.text(alphabet=st.characters(blacklist_categories=("Cs", "Cc")), max_size=6)


@st.composite
def _frame_plan(draw, max_rows):
    fmt = draw(st.sampled_from(["pickle", "npz", "parquet", "csv", "csv", "json", "json"]))
    suffix = draw(st.sampled_from(["", "", ".gz", ".bz2", ".xz"]))
    opts = {}
    encoding = "utf-8"
    if fmt in ("csv", "json"):
        encs = ["utf-8", "utf-8", "latin-1"] + (["utf-16"] if suffix in ("", ".gz") else [])
        encoding = draw(st.sampled_from(encs))
        if encoding != "utf-8" or draw(st.booleans()):
            opts["encoding"] = encoding
    if fmt == "csv":
        if draw(st.booleans()):
            opts["sep"] = draw(st.sampled_from([",", ";", "\t", "|"]))
        if draw(st.booleans()):
            opts["header"] = draw(st.booleans())
    if fmt == "json" and draw(st.booleans()):
        opts["indent"] = draw(st.sampled_from([None, 0, 4]))
    if fmt == "npz" and draw(st.booleans()):
        opts["compress"] = draw(st.booleans())
    n = draw(st.integers(1, max_rows))
    k = draw(st.integers(1, 4))
    pool = [x for x in NAMES if encoding != "latin-1" or all(ord(ch) < 256 for ch in x)]
    if fmt == "npz":
        pool = [x for x in pool if x.isidentifier() and x != "items"] + ["n2", "n3"]
    names = draw(st.lists(st.sampled_from(pool), min_size=k, max_size=k, unique=True))
    cols = []
    for nm in names:
        kind = draw(st.sampled_from(KINDS[fmt]))
        if kind in ("s", "u", "o"):
            special = LATIN if encoding == "latin-1" else SPECIAL
            na = "" if kind != "o" else None
            vals = [draw(st.one_of(st.just(na), st.sampled_from(special), st.sampled_from(special), _text(encoding)))
                    for _ in range(n)]
            if kind == "u":
                vals = [v.rstrip("\x00") for v in vals]
            if kind == "o":
                vals = [None if v == "" else v for v in vals]
            if fmt == "csv":
                # values spelled like null markers, numbers, booleans or dates are legitimate strings; one
                # unambiguously textual value per column keeps the reader from inferring another column type
                lookalikes = ["NA", "N/A", "null", "NULL", "nan", "NaN", "#N/A", "1", "2.5", "true", "2020-01-01", "-"]
                vals = [draw(st.sampled_from(lookalikes)) if (v != "" and draw(st.integers(0, 3)) == 0) else v for v in vals]
                anchor = draw(st.integers(0, n - 1))
                vals[anchor] = "x" + vals[anchor]
        elif kind == "t" and fmt == "csv":
            vals = [draw(st.sampled_from(CSV_T)) for _ in range(n)]
        elif kind == "f32":
            vals = [draw(st.sampled_from([0.1, 1.0 / 3.0, 2.5, -1e-3, 16777217.0, gen.NAN])) for _ in range(n)]
            vals = [float(np.float32(v)) for v in vals]          # the exact value the float32 column will hold
        elif kind == "i32":
            vals = [draw(st.sampled_from([0, 1, -7, 2**31 - 1, -2**31])) for _ in range(n)]
        else:
            vals = draw(gen.values(kind, n))
        if fmt == "csv" and k == 1:
            repl = {"f": 1.5, "f32": 1.5, "s": "xv", "d": "2020-01-01", "t": "2020-12-31T12:00:00"}
            vals = [repl[kind] if build.plan_isna(kind, v) else v for v in vals]
        cols.append({"name": nm, "kind": kind, "vals": vals})
    plan = {"obj": "frame", "fmt": fmt, "suffix": suffix, "opts": opts, "frame": {"n": n, "cols": cols}}
    if draw(st.integers(0, 5)) == 0:
        plan["subdir"] = draw(st.sampled_from(["k=1", "year=2020", "a=x/b=y", "v1.2", "my data", "a.csv.gz"]))
    if draw(st.integers(0, 3)) == 0:
        plan["path_forms"] = [draw(st.sampled_from(["str", "path"])), draw(st.sampled_from(["str", "path"]))]
    if cols and draw(st.integers(0, 7)) == 0:
        plan["frame"]["via"] = "marked_by_group_by"        # the frame that is written carries a group_by mark
    if n >= 2 and draw(st.integers(0, 3)) == 0:
        # history: the same frame object is written once (this or another format), two cells of a column are swapped in
        # place, and only then comes the write that is read back: the file must show the frame as it is now
        plan["rewrite"] = {"fmt": draw(st.sampled_from([fmt, fmt, "csv", "parquet", "json", "pickle"])),
                           "swaps": [[draw(st.integers(0, k - 1)), draw(st.integers(0, n - 1)), draw(st.integers(0, n - 1))]
                                     for _ in range(draw(st.integers(1, 2)))]}
    if fmt in ("csv", "json") and draw(st.integers(0, 3)) == 0:
        # history: an earlier write of another frame with other options in the same process
        plan["prior"] = {"header": draw(st.booleans()), "sep": draw(st.sampled_from([",", ";", "|"])),
                         "encoding": draw(st.sampled_from(["utf-8", "latin-1"])), "indent": draw(st.sampled_from([None, 0]))}
    return plan


@st.composite
def _lod_plan(draw, max_rows):
    fmt = draw(st.sampled_from(["pickle", "json", "csv", "csv"]))
    suffix = draw(st.sampled_from(["", ".gz", ".bz2", ".xz"]))
    opts = {}
    encoding = "utf-8"
    if fmt in ("csv", "json"):
        encs = ["utf-8", "utf-8", "latin-1"] + (["utf-16"] if suffix in ("", ".gz") else [])
        encoding = draw(st.sampled_from(encs))
        if encoding != "utf-8" or draw(st.booleans()):
            opts["encoding"] = encoding
    if fmt == "csv":
        if draw(st.booleans()):
            opts["sep"] = draw(st.sampled_from([",", ";", "\t", "|"]))
        if draw(st.booleans()):
            opts["header"] = draw(st.booleans())
    n = draw(st.integers(1, max_rows))
    special = LATIN if encoding == "latin-1" else SPECIAL
    keys = ["a", "b", "c d"][:draw(st.integers(1, 3))]
    items = []
    for i in range(n):
        it = {}
        for k in keys:
            if fmt == "csv":
                it[k] = draw(st.one_of(st.sampled_from(special), _text(encoding), st.just("")))
            else:
                if draw(st.integers(0, 4)) == 0 and k != "a":
                    continue        # ragged
                it[k] = draw(st.one_of(st.none(), st.booleans(), st.integers(-2**60, 2**60), st.sampled_from(special),
                                       st.sampled_from([0.5, -0.0, 1e300])))
        pairs = [[k, v] for k, v in it.items()]
        if draw(st.booleans()):
            pairs = list(draw(st.permutations(pairs)))                      # same keys, another insertion order
        items.append([list(p) for p in pairs])                              # pairs keep the order in JSON replays
    if fmt == "csv" and not opts.get("header", True):
        # without a header the generated names a, b, ... are the documented result
        pass
    return {"obj": "lod", "fmt": fmt, "suffix": suffix, "opts": opts, "items": items, "keys": keys}


@st.composite
def _with_history(draw, base):
    plan = draw(base)
    if plan["obj"] == "frame" and draw(st.integers(0, 3)) == 0:
        plan["prior_read"] = True
    if draw(st.integers(0, 4)) == 0:
        plan["failed_first"] = draw(st.sampled_from(["json_ascii", "json_inf", "csv_ascii", "lod_csv_ascii", "directory"]))
    return plan


def strategy(tier):
    m = 6 if tier == "quick" else 15
    return _with_history(st.one_of(_frame_plan(m), _frame_plan(m), _frame_plan(m), _lod_plan(m)))


def _special(v):
    return isinstance(v, str) and any(ch in v for ch in ',"\n\r\t;|') or (isinstance(v, str) and v != v.strip())


def nontrivial(plan):
    opt = bool(plan["suffix"]) or bool(plan["opts"])
    if plan["obj"] == "frame":
        cells = [(c["kind"], v, j) for c in plan["frame"]["cols"] for j, v in enumerate(c["vals"])]
        return opt and any(_special(v) or (j == 0 and k in ("s", "o") and build.plan_isna(k, v)) for k, v, j in cells)
    return opt and any(_special(v) for it in _items(plan) for v in it.values())


EXT = {"pickle": ".pkl", "npz": ".npz", "parquet": ".parquet", "csv": ".csv", "json": ".json"}


def _csv_cell_ok(got, want):
    """CSV/JSON: ints ≡ integral floats numerically, everything else exact."""
    if got is None or want is None:
        return got is None and want is None
    num = lambda x: isinstance(x, (int, float)) and not isinstance(x, bool)
    if num(got) and num(want):
        if isinstance(got, int) and isinstance(want, int):
            return got == want
        return float(got) == float(want)
    return build.same_cell(got, want)


def _check_compression(plan, path, write_plain, ctx):
    suffix, fmt = plan["suffix"], plan["fmt"]
    if not suffix or fmt in ("npz", "parquet"):
        return
    with open(path, "rb") as f:
        head = f.read(8)
    if not head.startswith(MAGIC[suffix]):
        raise Violation("file with a compression suffix is not really compressed", suffix=suffix, fmt=fmt, head=head)
    with OPENERS[suffix](path, "rb") as f:
        payload = f.read()
    plain = ctx.path("plain" + EXT[fmt])
    write_plain(plain)
    with open(plain, "rb") as f:
        want = f.read()
    if fmt != "pickle" and payload != want:
        raise Violation("decompressed content differs from an uncompressed write with the same options",
                        suffix=suffix, fmt=fmt, got=payload[:120], want=want[:120])
    ctx.cls("compression_checked")


def _failed_write_first(plan, ctx):
    """history: a write of another object that cannot succeed (text that does not fit the encoding, a value JSON cannot
    hold, a path that is a directory) happened a moment ago in this process; the write under test must not notice"""
    how = plan.get("failed_first")
    if not how:
        return
    small = di.DataFrame(q=[1.5, float("inf")], r=["é", "日本"])
    lod = di.ListOfDicts([{"q": float("inf"), "r": "é"}])
    try:
        if how == "json_ascii":
            small.write_json(ctx.path("failed.json"), encoding="ascii", ensure_ascii=False)
        elif how == "json_inf":
            lod.write_json(ctx.path("failed2.json"), allow_nan=False)
        elif how == "csv_ascii":
            small.write_csv(ctx.path("failed.csv"), encoding="ascii")
        elif how == "lod_csv_ascii":
            lod.write_csv(ctx.path("failed2.csv"), encoding="ascii")
        else:
            getattr(small, "write_" + plan["fmt"])(os.path.dirname(ctx.path("x")))
        ctx.cls("first_write_succeeded_after_all")
    except Exception:
        ctx.cls("after_a_failed_write")


def check(plan, ctx):
    ctx.cls(f"{plan['obj']}_{plan['fmt']}{plan['suffix'] or '_plain'}")
    if plan["obj"] == "lod":
        _failed_write_first(plan, ctx)
    if plan["obj"] == "lod":
        return _check_lod(plan, ctx)
    fp, fmt, suffix, opts = plan["frame"], plan["fmt"], plan["suffix"], dict(plan["opts"])
    data = build.frame(fp, rid=None)
    if plan.get("rewrite"):
        rw = plan["rewrite"]
        first = ctx.path("first" + EXT.get(rw["fmt"], "." + rw["fmt"]))
        try:
            getattr(data, "write_" + rw["fmt"])(first)
        except Exception:
            ctx.cls("first_write_in_another_format_failed")     # e.g. names the other format cannot hold: not the subject here
        fp = dict(fp, cols=[dict(c, vals=list(c["vals"])) for c in fp["cols"]])
        for j, r1, r2 in rw["swaps"]:
            c = fp["cols"][j]
            c["vals"][r1], c["vals"][r2] = c["vals"][r2], c["vals"][r1]
            col = data[c["name"]]
            tmp = np.array(col[r1:r1 + 1]).copy()
            col[r1] = col[r2]
            col[r2] = tmp[0]
        if build.snap_frame(data) != build.snap_frame(build.frame(fp, rid=None)):
            raise RuntimeError("builder: in-place swap does not match the plan")
        ctx.cls("written_again_after_in_place_edit")
    src = build.table(data)
    before = build.snap_frame(data)
    names = list(src)
    kinds = {c["name"]: c["kind"] for c in fp["cols"]}
    missing = {c["name"]: [build.plan_isna(c["kind"], v) for v in c["vals"]] for c in fp["cols"]}
    if plan.get("prior"):
        pr = plan["prior"]
        small = di.DataFrame(q=[1, 2], r=["x", "y"])
        if fmt == "csv":
            small.write_csv(ctx.path("prior.csv"), header=pr["header"], sep=pr["sep"], encoding=pr["encoding"])
        else:
            small.write_json(ctx.path("prior.json"), encoding=pr["encoding"], indent=pr["indent"])
        ctx.cls("after_a_prior_write")
    _failed_write_first(plan, ctx)
    if plan.get("prior_read"):
        # history: a file whose columns have the same names but hold text was written and read (all defaults) earlier in
        # this process; nothing learnt about those names may stick
        other = di.DataFrame({c["name"]: ["some", "text"] for c in fp["cols"]})
        try:
            ppath = ctx.path("prior_read" + EXT[fmt])
            getattr(other, "write_" + fmt)(ppath)
            getattr(di.DataFrame, "read_" + fmt)(ppath)
            ctx.cls("after_reading_same_named_text_columns")
        except Exception:
            pass
    path = ctx.path("data" + EXT[fmt] + suffix)
    if plan.get("subdir"):
        # the file sits in a directory whose name looks like something else (key=value, a name with a dot or blanks)
        path = os.path.join(os.path.dirname(path), plan["subdir"], os.path.basename(path))
        os.makedirs(os.path.dirname(path), exist_ok=True)
        ctx.cls("file_in_an_oddly_named_directory")
    # a path may be spelt as a str or as a pathlib.Path, independently for the write and for the read
    wform, rform = plan.get("path_forms", ["str", "str"])
    spell = lambda p, form: pathlib.Path(p) if form == "path" else p
    if "path" in (wform, rform):
        ctx.cls("path_given_as_pathlib_Path")
    writer = lambda p: getattr(data, "write_" + fmt)(spell(p, wform), **opts)
    ctx.call(f"write_{fmt}", writer, path)
    if build.snap_frame(data) != before:
        raise Violation(f"write_{fmt} changed its receiver")
    if not os.path.exists(path):
        if fmt == "npz" and suffix:
            raise Violation("write_npz did not create the file at the given path", path=os.path.basename(path),
                            created=sorted(os.listdir(os.path.dirname(path))))
        raise Violation(f"write_{fmt} did not create the file at the given path", created=sorted(os.listdir(os.path.dirname(path))))
    _check_compression(plan, path, writer, ctx)
    ropts = {k: v for k, v in opts.items() if k in ("encoding", "sep", "header")}
    if fmt == "json" and any(kinds[cn] in ("d", "t") for cn in names):
        # (only when needed: an omitted argument and an explicitly empty one are not the same call)
        ropts["dtypes"] = {cn: ("datetime64[D]" if kinds[cn] == "d" else "datetime64[us]")
                           for cn in names if kinds[cn] in ("d", "t")}
    back = ctx.call(f"read_{fmt}", lambda: getattr(di.DataFrame, "read_" + fmt)(spell(path, rform), **ropts))
    exp_names = names
    if fmt == "csv" and opts.get("header") is False:
        exp_names = list("abcdefgh")[:len(names)]
    got_names = list(dict.keys(back))
    if got_names != exp_names:
        raise Violation(f"{fmt}: column names/order differ after write/read", got=got_names, want=exp_names)
    for cn, bn in zip(names, exp_names):
        tag, want = src[cn]
        col = back[bn]
        oc = build.cells(col)
        if len(oc) != len(want):
            raise Violation(f"{fmt}: row count differs after write/read", column=cn, got=len(oc), want=len(want))
        for j, (a, b) in enumerate(zip(oc, want)):
            ok = _csv_cell_ok(a, b) if fmt in ("csv", "json") else build.same_cell(a, b)
            if not ok:
                raise Violation(f"{fmt}: cell differs after write/read", column=cn, row=j, got=a, want=b,
                                dtype=build.dtype_tag(col), kind=kinds[cn])
        if fmt in ("pickle", "npz") and build.dtype_tag(col) != tag:
            raise Violation(f"{fmt}: dtype differs after write/read", column=cn, got=build.dtype_tag(col), want=tag)
        if fmt == "parquet" and kinds[cn] != "ob" and not all(missing[cn]) and build.dtype_tag(col) != tag:
            raise Violation("parquet: dtype differs after write/read", column=cn, got=build.dtype_tag(col), want=tag)


def _items(plan):
    """Items as dicts in their planned key order (plans store [key, value] pairs; old replays store dicts)."""
    return [dict(it) if not isinstance(it, dict) else dict(it) for it in plan["items"]]


def _check_lod(plan, ctx):
    fmt, suffix, opts = plan["fmt"], plan["suffix"], dict(plan["opts"])
    items = _items(plan)
    data = di.ListOfDicts([dict(x) for x in items])
    path = ctx.path("list" + EXT[fmt] + suffix)
    writer = lambda p: getattr(data, "write_" + fmt)(p, **opts)
    ctx.call(f"ListOfDicts.write_{fmt}", writer, path)
    if [dict(x) for x in data] != items:
        raise Violation(f"ListOfDicts.write_{fmt} changed its receiver")
    if not os.path.exists(path):
        raise Violation(f"ListOfDicts.write_{fmt} did not create the file at the given path")
    _check_compression(plan, path, writer, ctx)
    ropts = {k: v for k, v in opts.items() if k in ("encoding", "sep", "header")}
    back = ctx.call(f"ListOfDicts.read_{fmt}", lambda: getattr(di.ListOfDicts, "read_" + fmt)(path, **ropts))
    got = [dict(x) for x in back]
    want = [dict(x) for x in items]
    if fmt == "csv":
        keys = []                                   # file column order = first-seen key order over the items
        for it in items:
            for k in it:
                if k not in keys:
                    keys.append(k)
        if opts.get("header") is False:
            gen_names = list("abcdefgh")[:len(keys)]
            want = [{g: x[k] for g, k in zip(gen_names, keys)} for x in want]
    typed = lambda d: {k: (type(v).__name__, v) for k, v in d.items()}
    if len(got) != len(want) or [typed(x) for x in got] != [typed(x) for x in want]:
        raise Violation(f"ListOfDicts {fmt}: items differ after write/read", got=got[:4], want=want[:4])


def _r37(plan, v):
    return (plan["obj"] == "frame" and plan["fmt"] == "npz" and plan["suffix"] != ""
            and v.what.startswith("write_npz did not create the file at the given path"))


def _lone_cr(v):
    return isinstance(v, str) and "\r" in v.replace("\r\n", "")


def _r36(plan, v):
    return (plan["obj"] == "lod" and plan["fmt"] == "csv" and v.what.startswith("ListOfDicts csv: items differ")
            and any(_lone_cr(x) for it in _items(plan) for x in it.values()))


KNOWN = {"R37-npz-path-with-compression-suffix": _r37, "R36-lod-csv-lone-carriage-return": _r36}
