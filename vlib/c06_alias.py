# -*- coding: utf-8 -*-
"""C06 — operations neither mutate nor alias their inputs."""

import contextlib
import io
import random

import numpy as np
import dataiter as di
from hypothesis import strategies as st

from . import build, gen
from .runner import Violation

ID = "C06"
RULE = ("plan = (frame) two frames (1..8 rows quick / 1..20 thorough; key column from a tight pool, numeric, string and 0..3 columns "
        "of any kind incl. legacy <U, object, StringDType ≥ 50 chars, datetimes) + a program of 1..4 calls drawn from every public "
        "non-in-place DataFrame method; later calls may take earlier results as receiver or argument; or (vector) one vector of "
        "any kind + one public Vector method. Oracle per call: byte-level snapshots (dtype, shape, bytes / element reprs, column "
        "names and order, grouping) of receiver and arguments are equal before and after (also when the call raises); no result "
        "column shares memory with any operand column (np.shares_memory); behavioural form: an in-place write into each result "
        "column leaves every operand snapshot unchanged and vice versa. Documented exceptions encoded: group_by (returns the "
        "receiver), copy (shallow). Non-trivial: a call whose result has ≥ 1 row and ≥ 1 column originating from an operand. "
        "Distinct = plan hash.")
CASES = {"quick": 2500, "thorough": 12000}

FRAME_METHODS = [
    "filter", "filter_out", "filter_kv", "slice", "slice_off", "head", "tail", "drop_na", "sample", "unique", "sort",
    "sort_desc", "select", "unselect", "rename", "modify", "modify_callable", "modify_grouped", "cbind", "rbind", "update",
    "left_join", "inner_join", "semi_join", "anti_join", "full_join", "count", "aggregate", "aggregate_lambda", "split", "map",
    "to_list_of_dicts", "to_json", "to_pandas", "to_arrow", "to_string", "print_na_counts", "print_memory_use", "deepcopy",
    "copy", "group_by", "compare_self", "filter_rows_and_pairs", "filter_out_rows_and_pairs", "bad_call", "bad_call",
]
VECTOR_METHODS = [
    "as_boolean", "as_float", "as_integer", "as_object", "as_string", "as_bytes", "as_date", "as_datetime", "concat",
    "drop_na", "head", "tail", "replace_na", "sample", "sort", "sort_desc", "rank", "unique", "map", "range", "tolist",
    "to_string", "to_strings", "equal", "is_na", "dt_year", "re_sub", "str_upper", "get_memory_use",
    "construct_from", "construct_from",
]
ANY_KINDS = ["f", "i", "b", "s", "u", "d", "t", "td", "o", "ob"]
IDENTITY_CASTS = [("b", "as_boolean"), ("f", "as_float"), ("i", "as_integer"), ("o", "as_object"), ("oi", "as_object"),
                  ("s", "as_string"), ("y", "as_bytes"), ("d", "as_date"), ("t", "as_datetime"),
                  ("f", "replace_na"), ("s", "replace_na"), ("i", "drop_na"), ("i", "head"), ("s", "tail")]


@st.composite
def _frame(draw, n, tag):
    kkind = draw(st.sampled_from(["i", "s", "u", "f", "d", "o"]))
    cols = [{"name": "k", "kind": kkind, "vals": draw(gen.values(kkind, n, mode="tight"))},
            {"name": "x" if tag == "a" else "y", "kind": "f", "vals": draw(gen.values("f", n, mode="tight"))}]
    for j in range(draw(st.integers(0, 3))):
        kind = draw(st.sampled_from(ANY_KINDS))
        cols.append({"name": f"{tag}{j}", "kind": kind, "vals": draw(gen.values(kind, n))})
    return {"n": n, "cols": cols}


@st.composite
def _plan(draw, max_rows):
    if draw(st.integers(0, 2)) == 0:
        if draw(st.integers(0, 3)) == 0:
            # conversions to the dtype the vector already has: the one place where "nothing to do"
            # shortcuts (astype(copy=False), asarray) would hand back the receiver itself
            kind, m = draw(st.sampled_from(IDENTITY_CASTS))
            n = draw(st.integers(1, max_rows))
            return {"target": "vector", "kind": kind, "vals": draw(gen.values(kind, n)), "m": m, "a": draw(st.integers(0, 5))}
        kind = draw(st.sampled_from(ANY_KINDS + ["y", "oi"]))
        n = draw(st.integers(0, max_rows))
        return {"target": "vector", "kind": kind, "vals": draw(gen.values(kind, n)),
                "m": draw(st.sampled_from(VECTOR_METHODS)), "a": draw(st.integers(0, 8))}
    n = draw(st.integers(1, max_rows))
    a = draw(_frame(n, "a"))
    b = draw(_frame(n if draw(st.booleans()) else draw(st.integers(1, max_rows)), "b"))
    b["cols"][0]["kind"] = a["cols"][0]["kind"]
    b["cols"][0]["vals"] = draw(gen.values(a["cols"][0]["kind"], b["n"], mode="tight"))
    if a["cols"][0]["kind"] == "d" and draw(st.booleans()):
        # key columns of the same family in different units (dates on one side, timestamps on the other)
        b["cols"][0]["kind"] = "t"
        b["cols"][0]["vals"] = [None if v is None else v + "T00:00:00" for v in b["cols"][0]["vals"]]
    if draw(st.integers(0, 19)) == 0:
        # long frames (a thousand rows and more) whose key is already in ascending order: where "nothing to do"
        # shortcuts of sort, unique, filter, slice ... would hand back the receiver's own arrays
        m = draw(st.sampled_from([1000, 1001, 1024, 2049]))
        step = draw(st.sampled_from([1, 3]))
        a = {"n": m, "cols": [{"name": "k", "kind": "i", "vals": [i // step for i in range(m)]},
                              {"name": "x", "kind": "f", "vals": [float(i % 7) for i in range(m)]},
                              {"name": "a0", "kind": "s", "vals": ["s%03d" % (i % 50) for i in range(m)]}]}
        b = {"n": m, "cols": [{"name": "k", "kind": "i", "vals": [i // step for i in range(m)]},
                              {"name": "y", "kind": "f", "vals": [float(i % 5) for i in range(m)]}]}
    calls = [{"m": draw(st.sampled_from(FRAME_METHODS)), "recv": draw(st.integers(0, 5)), "arg": draw(st.integers(0, 5)),
              "a": draw(st.integers(0, 7)), "ro": draw(st.integers(0, 5)) == 0} for _ in range(draw(st.integers(1, 4)))]
    return {"target": "frame", "a": a, "b": b, "calls": calls}


def strategy(tier):
    return _plan(8 if tier == "quick" else 20)


def nontrivial(plan):
    if plan["target"] == "vector":
        return len(plan["vals"]) >= 1
    return True


# -- poking -------------------------------------------------------------------------------------

def _poke_value(a):
    k = a.dtype.kind
    if k == "b":
        return not bool(a[0])
    if k in "iu":
        return a[0] ^ 1
    if k == "f":
        return 12345.5 if not (a[0] == 12345.5) else -1.0
    if k == "M":
        return np.datetime64("1999-09-09").astype(a.dtype) if str(a[0]) != "1999-09-09" else np.datetime64("1998-08-08").astype(a.dtype)
    if k == "m":
        return np.timedelta64(77, "s").astype(a.dtype) if not a[0] == np.timedelta64(77, "s") else np.timedelta64(78, "s").astype(a.dtype)
    if k == "U":
        return "§" if a[0] != "§" else "¤"
    if k == "S":
        return b"~" if a[0] != b"~" else b"^"
    if isinstance(a.dtype, np.dtypes.StringDType):
        return "§poke§" if a[0] != "§poke§" else "¤"
    return ("poke", id(a))


def _columns(obj):
    if isinstance(obj, di.DataFrame):
        return [np.asarray(v) for v in dict.values(obj)]
    if isinstance(obj, np.ndarray):
        return [np.asarray(obj)]
    return []


def _check_independent(what, result, operands, snaps_of):
    """np.shares_memory + in-place writes on either side are invisible on the other."""
    rcols = [c for c in _columns(result) if c.ndim == 1]
    ocols = [c for op in operands for c in _columns(op)]
    for r in rcols:
        for o in ocols:
            if r.size and o.size and np.shares_memory(r, o):
                raise Violation(f"{what}: result shares memory with an operand", rdtype=str(r.dtype), odtype=str(o.dtype))
    before_ops = [snaps_of(op) for op in operands]
    for r in rcols:
        if r.size == 0 or not r.flags.writeable:
            continue
        old = r[0]
        try:
            r[0] = _poke_value(r)
        except Exception:
            continue
        changed = [i for i, op in enumerate(operands) if snaps_of(op) != before_ops[i]]
        r[0] = old
        if changed:
            raise Violation(f"{what}: an in-place edit of the result is visible through an operand", operand=changed[0])
    before_res = build.snap_any(result)
    for op in operands:
        for o in _columns(op):
            if o.size == 0 or not o.flags.writeable:
                continue
            old = o[0]
            try:
                o[0] = _poke_value(o)
            except Exception:
                continue
            seen = build.snap_any(result) != before_res
            o[0] = old
            if seen:
                raise Violation(f"{what}: an in-place edit of an operand is visible through the result")


def _snap_foreign(r):
    """contents of a result that is neither a DataFrame nor an ndarray (Arrow table, pandas frame, list of dicts, text)"""
    if hasattr(r, "to_pydict"):
        return repr(r.to_pydict())
    if hasattr(r, "to_dict") and hasattr(r, "columns"):
        return repr(r.to_dict("list"))
    return repr(r)


def _check_foreign_result(what, r, operands):
    """an in-place edit of an operand must not show in an exported object (np.shares_memory cannot look into those)"""
    before = _snap_foreign(r)
    for op in operands:
        for o in _columns(op):
            if o.size == 0 or not o.flags.writeable:
                continue
            old = o[0]
            try:
                o[0] = _poke_value(o)
            except Exception:
                continue
            seen = _snap_foreign(r) != before
            o[0] = old
            if seen:
                raise Violation(f"{what}: an in-place edit of an operand is visible through the exported result",
                                result=type(r).__name__, dtype=str(o.dtype))


# -- frame calls --------------------------------------------------------------------------------

class _ShouldHaveRaised(Exception):
    pass


def _stale_group(x, how):
    """the receiver is grouped by a column that is no longer there: the grouped call may fail, but only group_by may
    change the grouping (the marker is put back by the caller of bad_call through the snapshot comparison)"""
    g0 = tuple(x._group_colnames)
    x._group_colnames = ("column that was removed",)
    try:
        return x.aggregate(n=di.count()) if how == "aggregate" else x.modify(zz=lambda d: d.nrow)
    finally:
        rewritten = tuple(x._group_colnames) != ("column that was removed",)
        x._group_colnames = g0
        if rewritten:
            raise Violation(f"{how} rewrote the grouping of its receiver (a group column had been removed)")


def _ungrouped_aggregate(x):
    """aggregate on a frame that is not grouped: whether it fails or not, the receiver stays as it is"""
    g0 = tuple(x._group_colnames)
    x._group_colnames = ()
    names = list(dict.keys(x))
    try:
        x.aggregate(n=di.count())
        raise _ShouldHaveRaised()
    finally:
        x._group_colnames = g0
        if list(dict.keys(x)) != names:
            raise Violation("aggregate on an ungrouped frame left its receiver with other columns",
                            before=names, after=list(dict.keys(x)))


def _grouped_bad(x, bad):
    g = tuple(x._group_colnames)
    try:
        return x.group_by(bad).aggregate(n=di.count())
    finally:
        x._group_colnames = g                  # group_by marks its receiver by design: taken back here


def _call_frame(m, x, y, a):
    n = x.nrow
    names = list(dict.keys(x))
    first = names[0] if names else None
    by = ["k"] if "k" in x and "k" in y else []
    rnd = random.Random(a)
    if m == "filter": return x.filter(np.array([rnd.random() < 0.6 for _ in range(n)], dtype=bool))
    if m in ("filter_rows_and_pairs", "filter_out_rows_and_pairs") and first and n:
        # both a condition array and column=value pairs: the condition is the caller's object (an ndarray, a Vector
        # or one of the receiver's own boolean columns) and must come back untouched
        mask = np.array([rnd.random() < 0.6 for _ in range(n)], dtype=bool)
        cond = [mask, di.Vector(mask), mask.astype(np.int64), mask.view(di.DataFrameColumn)][a % 4]
        before = build.snap_array(cond)
        res = getattr(x, m.split("_rows")[0])(cond, **{first: x[first][a % n]})
        if build.snap_array(cond) != before:
            raise Violation(f"{m.split('_rows')[0]}(rows, **pairs) changed the condition array it was given", form=type(cond).__name__)
        return res
    if m in ("filter_rows_and_pairs", "filter_out_rows_and_pairs"): return x.filter(np.array([], dtype=bool)) if not n else x.copy().deepcopy()
    if m == "bad_call":
        # a call that has to fail (unknown column, wrong length ...): whatever it raises, _check_frame requires that it
        # leaves the operands - values, columns and grouping - exactly as they were
        bad = "no such column"
        calls = [lambda: x.count(bad), lambda: x.sort(**{bad: 1}), lambda: x.select(bad), lambda: x.rename(**{"new": bad}),
                 lambda: x.left_join(y, bad), lambda: x.full_join(y, bad), lambda: _grouped_bad(x, bad),
                 lambda: x.filter(np.ones(n + 1, dtype=bool)), lambda: x.modify(new=np.arange(n + 2)), lambda: x.unique(bad),
                 lambda: x.drop_na(bad), lambda: x.cbind(di.DataFrame(zz=np.arange(n + 2))), lambda: x.count(), lambda: x.anti_join(y, bad),
                 lambda: x.update(di.DataFrame(zz=np.arange(n + 2))), lambda: x.slice(rows=[n + 5]),
                 lambda: _stale_group(x, "aggregate"), lambda: _stale_group(x, "modify"), lambda: _ungrouped_aggregate(x)]
        calls[(a * 7 + n + len(names)) % len(calls)]()              # spread over all variants (a is 0 .. 7)
        raise _ShouldHaveRaised()
    if m == "filter_out": return x.filter_out(lambda d: np.array([i % 2 == a % 2 for i in range(d.nrow)], dtype=bool))
    if m == "filter_kv": return x.filter(**{first: x[first][0]}) if n else x.filter(np.array([], dtype=bool))
    if m == "slice":
        if a == 7: return x.slice()
        if a == 6: return x.slice(cols=list(range(len(names)))[::-1])
        return x.slice(rows=[i for i in range(n) if (i + a) % 2 == 0], cols=None if a % 3 else list(range(len(names)))[::-1])
    if m == "slice_off":
        if a == 7: return x.slice_off()
        if a == 6: return x.slice_off(cols=[0] if len(names) > 1 else None)
        return x.slice_off(rows=[a % n] if n else [], cols=[0] if (a % 2 and len(names) > 1) else None)
    if m == "head": return x.head(a) if a < 6 else x.head()
    if m == "tail": return x.tail(a) if a < 6 else x.tail()
    if m == "drop_na": return x.drop_na(*names[:1 + a % 2])
    if m == "sample":
        np.random.seed(a)
        return x.sample(max(1, a)) if a < 6 else x.sample()
    if m == "unique": return x.unique(*names[:a % 3])
    if m == "sort": return x.sort(**{c: 1 for c in names[:1 + a % 2]})
    if m == "sort_desc": return x.sort(**{c: -1 for c in names[:1 + a % 2]})
    if m == "select": return x.select(*names[::-1][:1 + a % max(1, len(names))])
    if m == "unselect": return x.unselect(*names[:a % 2 + 0])
    if m == "rename": return x.rename(**{"renamed": first}) if first else x.rename()
    if m == "modify": return x.modify(new=x[first], **({first: x[first]} if a % 2 else {})) if first else x.modify()
    if m == "modify_callable": return x.modify(new=lambda d: d[first]) if first else x.modify()
    if m == "modify_grouped":
        prev = x._group_colnames
        def writing(d):
            # the function edits the frame it was handed (its own business) and returns the edited column
            col = d[first]
            if len(col) and col.flags.writeable:
                col[0] = _poke_value(col)
            return col
        out = x.group_by(first).modify(**({"gn": lambda d: d.nrow} if a % 2 else {"gw": writing}))
        x._group_colnames = prev
        return out
    if m == "cbind": return x.cbind(y)
    if m == "rbind": return x.rbind(y)
    if m == "update": return x.update(y)
    if m in ("left_join", "inner_join", "semi_join", "anti_join", "full_join"): return getattr(x, m)(y, *by)
    if m == "count": return x.count(first)
    if m == "aggregate":
        prev = x._group_colnames
        out = x.group_by(first).aggregate(n=di.count(), f=di.first(names[-1]))
        x._group_colnames = prev
        return out
    if m == "aggregate_lambda":
        prev = x._group_colnames
        out = x.group_by(first).aggregate(v=lambda d: d[names[-1]][0] if d.nrow else None)
        x._group_colnames = prev
        return out
    if m == "split": return x.split(first)
    if m == "map": return x.map(lambda d, i: d[first][i])
    if m == "to_list_of_dicts": return x.to_list_of_dicts()
    if m == "to_json": return x.to_json()
    if m == "to_pandas": return x.to_pandas()
    if m == "to_arrow": return x.to_arrow()
    if m == "to_string": return x.to_string(max_rows=a or None)
    if m == "print_na_counts":
        with contextlib.redirect_stdout(io.StringIO()):
            return x.print_na_counts()
    if m == "print_memory_use":
        with contextlib.redirect_stdout(io.StringIO()):
            return x.print_memory_use()
    if m == "deepcopy": return x.deepcopy()
    if m == "copy": return x.copy()
    if m == "group_by": return x.group_by(first)
    if m == "compare_self":
        with contextlib.redirect_stdout(io.StringIO()):
            return x.modify(_id_=np.arange(n)).compare(y.modify(_id_=np.arange(y.nrow)), "_id_", max_changed=3)
    raise AssertionError(m)


def _check_frame(plan, ctx):
    objs = [build.frame(plan["a"], rid=None), build.frame(plan["b"], rid=None)]
    for no, c in enumerate(plan["calls"]):
        m = c["m"]
        x = objs[c["recv"] % len(objs)]
        y = objs[c["arg"] % len(objs)]
        operands = [x] if y is x else [x, y]
        pregrouped = None
        if c["a"] in (3, 5) and m not in ("group_by", "modify_grouped", "aggregate", "aggregate_lambda") and len(x):
            # the receiver is already grouped (documented effect of group_by): the call must leave that grouping alone
            pregrouped = x._group_colnames
            x._group_colnames = (next(iter(dict.keys(x))),)
            ctx.cls("call_on_grouped_receiver")
        snaps = [build.snap_frame(o) for o in operands]
        frozen = []
        if c.get("ro"):
            # the operands' columns are flagged read-only for the duration of the call (the flag can be lifted again
            # later, so it is no licence to share them)
            for o in operands:
                for col in dict.values(o):
                    if col.flags.writeable:
                        col.flags.writeable = False
                        frozen.append(col)
            ctx.cls("call_on_read_only_columns")
        try:
            try:
                with np.errstate(all="ignore"):
                    res = _call_frame(m, x, y, c["a"])
            finally:
                for col in frozen:
                    col.flags.writeable = True
        except Violation:
            raise
        except Exception as e:
            if isinstance(e, _ShouldHaveRaised):
                ctx.cls("bad_call_did_not_raise")          # tolerated (e.g. count() without columns may be defined): state still checked
            elif m == "bad_call":
                ctx.cls("bad_call_raised")
            if m in ("modify_grouped", "aggregate", "aggregate_lambda"):
                x._group_colnames = snaps[0][2]
            if pregrouped is not None:
                if tuple(x._group_colnames) != snaps[0][2]:
                    raise Violation(f"{m} raised and changed the grouping of its receiver")
                x._group_colnames = pregrouped
                snaps[0] = build.snap_frame(x)
            if [build.snap_frame(o) for o in operands] != snaps:
                raise Violation(f"{m} raised and left an operand changed", call=no, exc=f"{type(e).__name__}: {e}"[:200])
            ctx.reject(f"{m} raises on these operands: {type(e).__name__}")
            continue
        ctx.cls("m_" + m)
        if pregrouped is not None:
            after_g = tuple(x._group_colnames)
            if after_g != snaps[0][2]:
                raise Violation(f"{m} changed the grouping of its (already grouped) receiver", before=snaps[0][2], after=after_g)
            x._group_colnames = pregrouped
            snaps[0] = build.snap_frame(x)
        if m == "group_by":
            if res is not x or tuple(x._group_colnames) == ():
                raise Violation("group_by is documented to mark and return the receiver")
            marked = tuple(x._group_colnames)
            x._group_colnames = snaps[0][2]
            if build.snap_frame(x) != snaps[0]:
                raise Violation("group_by changed more than the grouping of its receiver")
            if c["a"] % 2:
                # leave the receiver grouped: later calls on it must not disturb the grouping either
                x._group_colnames = marked
                ctx.cls("receiver_left_grouped")
            continue
        after = [build.snap_frame(o) for o in operands]
        if after != snaps:
            which = [i for i in range(len(snaps)) if after[i] != snaps[i]][0]
            raise Violation(f"{m} changed its {'receiver' if which == 0 else 'argument'}", call=no,
                            names_before=snaps[which][0], names_after=after[which][0])
        if m == "copy":
            if not isinstance(res, di.DataFrame) or res is x:
                raise Violation("copy did not return a new DataFrame")
            objs.append(res.deepcopy())
            continue
        results = list(res) if isinstance(res, (tuple, list)) and m in ("compare_self", "split") else [res]
        for r in results:
            if isinstance(r, (di.DataFrame, np.ndarray)):
                _check_independent(m, r, operands, build.snap_frame)
            elif m in ("to_arrow", "to_pandas", "to_list_of_dicts", "to_json"):
                _check_foreign_result(m, r, operands)
        if isinstance(res, di.DataFrame):
            if res.nrow and res.ncol:
                ctx.cls("result_with_data")
            objs.append(res)


# -- vector calls -------------------------------------------------------------------------------

def _call_vector(m, v, a, kind):
    if m == "as_boolean": return v.as_boolean()
    if m == "as_float": return v.as_float()
    if m == "as_integer": return v.as_integer()
    if m == "as_object": return v.as_object()
    if m == "as_string": return v.as_string()
    if m == "as_bytes": return v.as_bytes()
    if m == "as_date": return v.as_date()
    if m == "as_datetime": return v.as_datetime()
    if m == "concat": return [lambda: v.concat(v), lambda: v.concat(), lambda: v.concat(v[:0]), lambda: v.concat(v[:0], v[:0])][a % 4]()
    if m == "drop_na": return v.drop_na()
    if m == "head": return v.head(a)
    if m == "tail": return v.tail(a)
    if m == "replace_na": return v.replace_na(v[0] if len(v) else 0)
    if m == "sample":
        np.random.seed(a)
        return v.sample(a)
    if m == "construct_from":
        # the constructors ("return a new vector") given an existing vector and a dtype written the way the
        # documentation writes it: the generic class (np.datetime64, "U", bytes ...), the exact dtype, or none
        generic = {"M": np.datetime64, "m": np.timedelta64, "U": "U", "S": bytes, "f": float, "i": int, "b": bool,
                   "O": object}.get(v.dtype.kind)
        dtype = [generic, v.dtype, None][a % 3]
        ctor = [di.Vector, di.Vector.fast, di.DataFrameColumn][(a // 3) % 3]
        try:
            return ctor(v, dtype) if dtype is not None else ctor(v)
        except (TypeError, ValueError):
            return v.copy()
    if m == "sort": return v.sort(dir=1)
    if m == "sort_desc": return v.sort(dir=-1)
    if m == "rank": return v.rank(method=["min", "max", "ordinal"][a % 3])
    if m == "unique": return v.unique()
    if m == "map": return v.map(lambda x: x)
    if m == "range": return v.range()
    if m == "tolist": return v.tolist()
    if m == "to_string": return v.to_string(max_elements=a or None)
    if m == "to_strings": return v.to_strings()
    if m == "equal": return v.equal(v.copy())
    if m == "is_na": return v.is_na()
    if m == "dt_year": return v.dt.year()
    if m == "re_sub": return v.re.sub("a", "b")
    if m == "str_upper": return v.str.upper()
    if m == "get_memory_use": return v.get_memory_use()
    raise AssertionError(m)


def _check_vector(plan, ctx):
    v = build.vec(plan["kind"], plan["vals"])
    snap = build.snap_array(v)
    m = plan["m"]
    try:
        with np.errstate(all="ignore"):
            res = _call_vector(m, v, plan["a"], plan["kind"])
    except Exception as e:
        if build.snap_array(v) != snap:
            raise Violation(f"Vector.{m} raised and left its receiver changed", exc=f"{type(e).__name__}: {e}"[:200])
        ctx.reject(f"Vector.{m} not applicable to kind {plan['kind']}: {type(e).__name__}")
        return
    ctx.cls("v_" + m, "vkind_" + plan["kind"])
    if build.snap_array(v) != snap:
        raise Violation(f"Vector.{m} changed its receiver", kind=plan["kind"])
    if isinstance(res, np.ndarray) and res.ndim == 1:
        _check_independent("Vector." + m, res, [v], build.snap_array)


def check(plan, ctx):
    if plan["target"] == "vector":
        return _check_vector(plan, ctx)
    return _check_frame(plan, ctx)


KNOWN = {}
