# -*- coding: utf-8 -*-
"""C03 — DataFrame.sort is a stable, key-ordered permutation of whole rows."""

import numpy as np
import dataiter as di
from hypothesis import strategies as st

from . import build, gen, model
from .runner import Violation

ID = "C03"
RULE = ("plan = frame (0..12 rows quick / 0..40 thorough, 1..3 key columns + 0..2 payload columns, row-id column added) "
        "+ direction per key. Key kinds: bool, int64 (full range incl. -2**63), int8, uint8, float (NaN, ±inf, ±0.0, 2**53 "
        "neighbours), date/datetime/timedelta with NaT, StringDType short and ≥ 50 chars (shared 49-char prefix, astral "
        "characters), legacy <U, bytes, object str / int with None. Oracle: result row ids must equal one of the ≤ 2^(#desc) "
        "stable comparator-sort reference orders (missing last for ascending keys, first or last per descending key) and "
        "every cell must equal its source row's cell bit-exactly. Non-trivial: ≥ 3 rows and (a tie on the first key with ≥ 2 "
        "distinct values, or a missing key cell, or a ≥ 50-char / legacy / object key, or a descending key). Distinct = plan hash.")
CASES = {"quick": 2000, "thorough": 16000}

KEY_KINDS = ["f", "i", "b", "s", "s", "u", "d", "t", "td", "o", "oi", "y", "i8", "u8", "i32", "f32", "tn"]
PAY_KINDS = ["f", "i", "s", "u", "d", "o", "b"]


@st.composite
def _plan(draw, max_rows):
    n = draw(gen.nrows(max_rows))
    nk = draw(st.sampled_from([1, 1, 2, 2, 3]))
    big = draw(st.integers(0, 11)) == 0
    if big:
        # > 16 rows, one key with few distinct values and no missing cell: where an unstable sort shows
        # sizes beyond any plausible "fast path above N rows" threshold too (both tiers)
        n = draw(st.one_of(st.integers(17, 40), st.integers(17, 40), st.sampled_from(gen.BIG_SIZES), st.sampled_from(gen.HUGE_SIZES[:3])))
        nk = 1
    if not big and draw(st.integers(0, 14)) == 0:
        # many keys at once (8 to 18), each with many distinct values: the number of key combinations is far beyond
        # what one machine word can count
        n = draw(st.integers(12, 26))
        cols, keys = [], []
        uniform = draw(st.booleans())           # every key a string column sorted the same way, or a mixture
        for j in range(draw(st.integers(8, 24))):
            kind = "s" if uniform else draw(st.sampled_from(["s", "s", "s", "i", "d", "b", "o"]))
            if kind == "s":
                vals = [f"{'abcdefghijklmnopqrstuvwxyz'[i]}{j}" for i in draw(st.permutations(range(n)))]
            else:
                vals = draw(gen.values(kind, n, mode="pool", na="none"))
            cols.append({"name": f"k{j}", "kind": kind, "vals": vals})
            keys.append([f"k{j}", -1 if uniform else draw(st.sampled_from([1, -1, -1]))])
        return {"frame": {"n": n, "cols": cols}, "keys": keys, "many_keys": True}
    cols, keys = [], []
    for j in range(nk):
        kind = draw(st.sampled_from(KEY_KINDS))
        mode = "tight" if big else draw(st.sampled_from(["tight", "tight", "tight", "pool", "wide"]))
        vals = draw(gen.big_values(kind, n)) if n > 40 else draw(gen.values(kind, n, mode=mode, na="none" if big else None))
        cols.append({"name": f"k{j}", "kind": kind, "vals": vals})
        keys.append([f"k{j}", draw(st.sampled_from([1, -1]))])
    for j in range(draw(st.integers(0, 2))):
        kind = draw(st.sampled_from(PAY_KINDS))
        cols.append({"name": f"p{j}", "kind": kind, "vals": draw(gen.big_values(kind, n, na="asis")) if n > 40 else draw(gen.values(kind, n))})
    order = draw(st.permutations(range(len(cols))))
    keys = draw(st.permutations(keys))
    plan = {"frame": {"n": n, "cols": [cols[i] for i in order]}, "keys": [list(k) for k in keys]}
    draw(gen.decorate(plan["frame"]))
    if draw(st.integers(0, 5)) == 0:
        plan["grouped_before"] = draw(st.integers(0, 5))
    if n >= 2 and draw(st.integers(0, 11)) == 0:
        # all keys plain numbers of different kinds: 64-bit integers that a float64 cannot tell apart must still
        # be ordered exactly (no stacking of the keys into one common dtype)
        cols2, keys2 = [], []
        for j, kind in enumerate(draw(st.sampled_from([["i", "f"], ["f", "i"], ["i", "f", "u8"], ["i", "i8", "f"]]))):
            pool = {"i": [2**53, 2**53 + 1, 2**53 + 2, 2**63 - 1, 2**63 - 2, 0], "f": [0.0, 1.0, -1.0, 2.5],
                    "u8": [0, 1, 255], "i8": [-128, 0, 127]}[kind]
            cols2.append({"name": f"k{j}", "kind": kind, "vals": [draw(st.sampled_from(pool)) for _ in range(n)]})
            keys2.append([f"k{j}", draw(st.sampled_from([1, -1]))])
        return {"frame": {"n": n, "cols": cols2}, "keys": keys2}
    if n >= 2 and draw(st.integers(0, 11)) == 0:
        # stale-width history: short strings only, then a cell becomes a longer string that shares its prefix with
        # another cell (anything remembered about the column's width is out of date at the second sort)
        kc = cols[0]
        kc["kind"] = "s"
        kc["vals"] = [draw(st.sampled_from(["a", "b", "ab", "abc", "", "é"])) for _ in range(n)]
        row = draw(st.integers(0, n - 1))
        base = draw(st.sampled_from([v for v in kc["vals"] if v] or ["a"]))
        plan["edits"] = [[kc["name"], row, base + draw(st.sampled_from(["a", "z", "zz", "0"]))]]
        return plan
    if n and draw(st.integers(0, 2)) == 0:
        # history: sort, edit key cells of the same frame in place, sort again (anything cached about a column is stale)
        edits = []
        for _ in range(draw(st.integers(1, 2))):
            c = cols[draw(st.integers(0, nk - 1))]
            if c["kind"] in ("u", "y"):
                continue                     # fixed-width dtypes truncate longer values on assignment
            v = draw(gen.value(c["kind"], "pool"))
            if c["kind"] == "s" and draw(st.booleans()):
                v = max(c["vals"], key=len) + draw(st.sampled_from(["z", "zzzz", "a" * 50]))
            edits.append([c["name"], draw(st.integers(0, n - 1)), v])
        plan["edits"] = edits
    return plan


def strategy(tier):
    return _plan(12 if tier == "quick" else 40)


def _keycols(plan):
    by_name = {c["name"]: c for c in plan["frame"]["cols"]}
    return [(by_name[k], d) for k, d in plan["keys"]]


def nontrivial(plan):
    n = plan["frame"]["n"]
    if n < 3:
        return False
    kc = _keycols(plan)
    c0, _ = kc[0]
    cs0 = [build.pcell(c0["kind"], v) for v in c0["vals"]]
    ids0 = [model.ident(c) for c in cs0]
    if len(set(ids0)) < n and len(set(ids0)) >= 2:
        return True
    for c, d in kc:
        if d < 0 or c["kind"] in ("u", "o", "oi"):
            return True
        if any(build.plan_isna(c["kind"], v) for v in c["vals"]):
            return True
        if any(isinstance(v, str) and len(v) >= 50 for v in c["vals"]):
            return True
    return False


def check(plan, ctx):
    data = build.frame(plan["frame"])
    # how the receiver came to be (derived from the plan hash so that old replays stay valid)
    how = ["built", "built", "shallow_copy", "view_rows", "derived"][len(repr(plan["keys"])) % 5] if "receiver" not in plan else plan["receiver"]
    if how == "shallow_copy":
        data = data.copy()
    elif how == "view_rows":
        data = data._view_rows(np.arange(data.nrow))
    elif how == "derived":
        data = data.filter(np.ones(data.nrow, dtype=bool)).rename()
    ctx.cls("receiver_" + how)
    if plan.get("grouped_before") is not None and dict.keys(data):
        # history: the same object went through group_by(...).aggregate(...) earlier (group_by marks its receiver and
        # nothing takes the mark back): a later sort is still by the named columns only
        names = list(dict.keys(data))
        g = names[plan["grouped_before"] % len(names)]
        try:
            data.group_by(g).aggregate(n=di.count())
            ctx.cls("receiver_was_grouped_before")
        except (TypeError, ValueError, KeyError):
            data._group_colnames = ()           # a column that cannot be grouped: not the subject here
    _check_sort(plan, data, ctx)
    if plan["keys"] and plan["frame"]["n"]:
        # select and sort commute: a frame holding nothing but the first key column, sorted by it, shows the same
        # sequence of key values as the whole frame sorted by it (rows that tie are identical there)
        k, d = plan["keys"][0]
        whole = build.cells(data.sort(**{k: d})[k])
        alone = di.DataFrame({k: data[k].copy()})
        got = build.cells(ctx.call("sort of a one-column frame", lambda: alone.sort(**{k: d}))[k])
        # (which end the missing values go to on a descending sort is left open by the statement: compared without them)
        g2, w2 = [c for c in got if c is not None], [c for c in whole if c is not None]
        idx = [i for i, c in enumerate(got) if c is not None]
        together = not idx or (idx == list(range(idx[0], idx[0] + len(idx))) and (idx[0] == 0 or idx[-1] == len(got) - 1))
        if len(got) != len(whole) or len(g2) != len(w2) or not together or \
                not all(build.same_cell(a, b, numeric_loose=True) for a, b in zip(g2, w2)):
            raise Violation("a frame holding only the key column sorts differently from the whole frame", key=k, dir=d,
                            alone=got, whole=whole)
    if plan.get("edits"):
        fp = {"n": plan["frame"]["n"], "cols": [dict(c, vals=list(c["vals"])) for c in plan["frame"]["cols"]]}
        for name, row, v in plan["edits"]:
            c = next(c for c in fp["cols"] if c["name"] == name)
            c["vals"][row] = v
            data[name][row] = build.np_array(c["kind"], [v])[0]
        ctx.cls("sorted_again_after_in_place_edit")
        _check_sort({"frame": fp, "keys": plan["keys"]}, data, ctx, phase="after an in-place edit of the sorted frame: ")


def _check_sort(plan, data, ctx, phase=""):
    src = build.table(data)
    want = {c["name"]: [build.pcell(c["kind"], v) for v in c["vals"]] for c in plan["frame"]["cols"]}
    for cn, cells_ in want.items():
        if not all(build.same_cell(a, b) for a, b in zip(src[cn][1], cells_)):
            raise RuntimeError(f"builder/edit mismatch in column {cn}")
    before = build.snap_frame(data)
    kc = _keycols(plan)
    n = plan["frame"]["n"]
    kwargs = {k: d for k, d in plan["keys"]}
    out = ctx.call(phase + "sort", lambda: data.sort(**kwargs))
    rids = build.check_whole_rows(phase + "sort", out, src)
    out2 = ctx.call(phase + "sort (second call)", lambda: data.sort(**kwargs))
    if build.snap_frame(out2) != build.snap_frame(out):
        raise Violation(phase + "sorting the same receiver a second time gives a different result")
    if sorted(rids) != list(range(n)):
        raise Violation(phase + "sort is not a permutation of the rows", rids=rids, nrow=n)
    cols = [[build.pcell(c["kind"], v) for v in c["vals"]] for c, _ in kc]
    dirs = [d for _, d in kc]
    orders = model.row_orders(cols, dirs)
    if rids not in orders:
        raise Violation(phase + "row order differs from every admissible stable key order", got=rids,
                        admissible=orders, keys=plan["keys"], keycells=cols)
    if build.snap_frame(data) != before:
        raise Violation("sort changed its receiver")
    for c, d in kc:
        if len(kc) >= 8:
            ctx.cls("eight_or_more_keys")
        ctx.cls("key_" + c["kind"], "desc" if d < 0 else "asc")
        if any(build.plan_isna(c["kind"], v) for v in c["vals"]):
            ctx.cls("with_missing_key")
    if n == 0:
        ctx.cls("empty_frame")
    if len(set(zip(*[[model.ident(x) for x in c] for c in cols]))) < n:
        ctx.cls("with_ties")


KNOWN = {}
