# -*- coding: utf-8 -*-
"""
plan -> real objects (deterministic), independent NA-aware cell extraction, comparison rules
(DESIGN 2.4) and byte-level snapshots.  Nothing here calls the dataiter routines under test
except the constructors `Vector(ndarray)` / `DataFrame(dict of columns)` on ready-made arrays.

Column kinds used in plans (values are plain Python data):
  f   float64        floats incl. nan / ±inf / -0.0          missing = nan
  i   int64          ints                                     no missing
  b   bool           bools                                    no missing
  s   StringDType    str                                      missing = ""
  u   legacy <U      str                                      missing = ""
  d   datetime64[D]  ISO date string or None                  missing = NaT
  t   datetime64[us] ISO datetime string or None              missing = NaT
  tm / ts            datetime64[ms] / [s]
  td  timedelta64[s] int seconds or None                      missing = NaT
  o   object         str or None;  oi object ints or None;  ob object bools or None
  y   bytes          ascii str -> np.bytes_                   no missing
"""

import datetime
import fractions
import math
import os

import numpy as np
import dataiter as di

KINDS = ["f", "i", "b", "s", "u", "d", "t", "tm", "ts", "td", "o", "oi", "ob", "y"]
DT_UNITS = {"d": "D", "t": "us", "tm": "ms", "ts": "s"}


def np_array(kind, vals):
    vals = list(vals)
    if kind == "f":
        return np.array(vals, dtype=np.float64)
    if kind == "f32":
        return np.array(vals, dtype=np.float32)
    if kind == "i":
        return np.array(vals, dtype=np.int64)
    if kind == "i32":
        return np.array(vals, dtype=np.int32)
    if kind == "i8":
        return np.array(vals, dtype=np.int8)
    if kind == "u8":
        return np.array(vals, dtype=np.uint8)
    if kind == "u64":
        return np.array(vals, dtype=np.uint64)
    if kind == "b":
        return np.array(vals, dtype=bool)
    if kind == "s":
        return np.array(vals, dtype=di.dtypes.string)
    if kind == "u":
        n = max([len(v) for v in vals] + [1])
        return np.array(vals, dtype=f"<U{n}")
    if kind in DT_UNITS:
        return np.array(["NaT" if v is None else v for v in vals], dtype=f"datetime64[{DT_UNITS[kind]}]")
    if kind == "tn":
        return np.array(["NaT" if v is None else v for v in vals], dtype="datetime64[ns]")
    if kind == "td":
        return np.array(["NaT" if v is None else v for v in vals], dtype="timedelta64[s]")
    if kind == "ol":
        a = np.empty(len(vals), dtype=object)           # object cells that are lists (what regex.split / findall return)
        for j, v in enumerate(vals):
            a[j] = None if v is None else list(v)
        return a
    if kind in ("o", "oi", "ob", "obn"):
        a = np.empty(len(vals), dtype=object)
        for j, v in enumerate(vals):
            # obn: the cells are NumPy scalars rather than Python objects (what element-wise indexing of a bool array leaves)
            a[j] = v if (kind != "obn" or v is None) else np.bool_(v)
        return a
    if kind == "y":
        n = max([len(v) for v in vals] + [1])
        return np.array([v.encode("ascii") for v in vals], dtype=f"S{n}")
    raise ValueError(kind)


def vec(kind, vals):
    return di.Vector(np_array(kind, vals))


def column(kind, vals):
    a = np_array(kind, vals)
    return a.view(di.DataFrameColumn)


def _strided(a):
    """The same values as a non-contiguous view (every other element of a buffer twice as long)."""
    buf = np.empty(2 * len(a), dtype=a.dtype)
    buf[::2] = a
    buf[1::2] = a
    return buf[::2]


def frame(fp, rid="_rid_"):
    """
    fp = {"cols": [{"name", "kind", "vals"}, ...]}; a row-id column is appended when rid.
    Optional fp["layout"]: "strided" (columns are non-contiguous views) / "readonly" is left to the checks;
    optional fp["via"]: how the frame object came to be (see VIA) - the same table, another history.
    """
    cols = {}
    n = fp_nrow(fp)
    for c in fp["cols"]:
        a = np_array(c["kind"], c["vals"])
        if fp.get("layout") == "strided" and len(a):
            a = _strided(a)
        elif fp.get("layout") == "bigendian" and a.dtype.kind in "iufMm" and a.dtype.itemsize > 1:
            a = a.astype(a.dtype.newbyteorder(">"))          # the same values in non-native byte order
        cols[c["name"]] = a.view(di.DataFrameColumn)
    if rid:
        cols[rid] = np.arange(n).view(di.DataFrameColumn)
    data = di.DataFrame(cols)
    via = fp.get("via")
    if via:
        try:
            derived = VIA[via](data)
            if snap_frame(derived) == snap_frame(data):      # otherwise the deriving method itself is broken: not the subject here
                return derived
        except Exception:
            pass
    return data


VIA = {
    # the frame object carries a group_by mark (group_by marks and returns its receiver): operations that are not
    # about groups take no notice of it
    "marked_by_group_by": lambda d: d.group_by([k for k in dict.keys(d) if k != "_rid_"][0]),
    "copy": lambda d: d.copy(),
    "deepcopy": lambda d: d.deepcopy(),
    "slice_all": lambda d: d.slice(list(range(d.nrow))),
    "filter_all": lambda d: d.filter(np.ones(d.nrow, dtype=bool)),
    "select_all": lambda d: d.select(*dict.keys(d)),
    "rbind_halves": lambda d: d.head(d.nrow // 2).rbind(d.tail(d.nrow - d.nrow // 2)),
    "modify_nothing": lambda d: d.modify(),
    "from_pandas": lambda d: di.DataFrame.from_pandas(d.to_pandas()),
    "from_arrow": lambda d: di.DataFrame.from_arrow(d.to_arrow()),
    "parquet": lambda d: _through_file(d, "parquet"),
    "npz": lambda d: _through_file(d, "npz"),
    "pickle": lambda d: _through_file(d, "pickle"),
    "sorted_by_rid": lambda d: d.sort(**{next(k for k in dict.keys(d) if k.startswith("_") and k.endswith("_")): 1}),
    "left_join_nothing": lambda d: d.left_join(di.DataFrame({next(iter(dict.keys(d))): d[next(iter(dict.keys(d)))][:0]}), next(iter(dict.keys(d)))),
}


def _through_file(d, fmt):
    import tempfile
    with tempfile.TemporaryDirectory(prefix="verif-via-") as tmp:
        path = os.path.join(tmp, "t." + {"pickle": "pkl"}.get(fmt, fmt))
        getattr(d, "write_" + fmt)(path)
        return getattr(di.DataFrame, "read_" + fmt)(path)



def fp_nrow(fp):
    if "n" in fp:
        return fp["n"]
    return len(fp["cols"][0]["vals"]) if fp["cols"] else 0


# -- missing values and canonical cells -----------------------------------------------------

def plan_isna(kind, v):
    if kind in ("f", "f32"):
        return v != v
    if kind in ("s", "u"):
        return v == ""
    if kind in ("i", "i32", "i8", "u8", "u64", "b", "y"):
        return False
    return v is None                             # d, t, tm, ts, tn, td, o, oi, ob


_EPOCH = datetime.datetime(1970, 1, 1)

def iso_to_us(s):
    """ISO date or datetime string -> integer microseconds since the epoch (proleptic)."""
    if "T" in s or " " in s:
        x = datetime.datetime.fromisoformat(s)
    else:
        d = datetime.date.fromisoformat(s)
        x = datetime.datetime(d.year, d.month, d.day)
    delta = x - _EPOCH
    return (delta.days * 86400 + delta.seconds) * 1000000 + delta.microseconds


def pcell(kind, v):
    """Canonical cell of a plan value: None for missing, else a comparable Python value."""
    if plan_isna(kind, v):
        return None
    if kind == "f32":
        return float(np.float32(v))               # the plan value as float32 holds it
    if kind == "f":
        return float(v)
    if kind in ("i", "i32", "i8", "u8", "u64", "oi"):
        return int(v)
    if kind in ("b", "ob", "obn"):
        return bool(v)
    if kind == "ol":
        return list(v)
    if kind in DT_UNITS:
        return ("T", iso_to_us(v))
    if kind == "tn":
        # nanosecond timestamps (what pandas and Arrow hand over): microseconds, exact, as an int or a Fraction
        head, _, frac = v.partition(".")
        frac = (frac + "000000000")[:9]
        ns = iso_to_us(head) * 1000 + int(frac)
        return ("T", ns // 1000 if ns % 1000 == 0 else fractions.Fraction(ns, 1000))
    if kind == "td":
        return ("D", int(v) * 1000000)
    if kind == "y":
        return v.encode("ascii")
    return v


def acell(x, stringish):
    """Canonical cell of an element taken from a real array (independent of Vector.tolist)."""
    if x is None:
        return None
    if isinstance(x, (float, np.floating)):
        return None if x != x else float(x)
    if isinstance(x, np.datetime64):
        if np.isnat(x):
            return None
        if np.datetime_data(x.dtype)[0] in ("ns", "ps", "fs", "as"):
            ns = int(x.astype("datetime64[ns]").astype(np.int64))
            return ("T", ns // 1000 if ns % 1000 == 0 else fractions.Fraction(ns, 1000))
        return ("T", int(x.astype("datetime64[us]").astype(np.int64)))
    if isinstance(x, np.timedelta64):
        if np.isnat(x):
            return None
        return ("D", int(x.astype("timedelta64[us]").astype(np.int64)))
    if isinstance(x, (bool, np.bool_)):
        return bool(x)
    if isinstance(x, (int, np.integer)):
        return int(x)
    if isinstance(x, (str, np.str_)):
        x = str(x)
        return None if (x == "" and stringish) else x
    if isinstance(x, (bytes, np.bytes_)):
        return bytes(x)
    if isinstance(x, datetime.datetime):
        d = x - _EPOCH
        return ("T", (d.days * 86400 + d.seconds) * 1000000 + d.microseconds)
    if isinstance(x, datetime.date):
        return ("T", (x - datetime.date(1970, 1, 1)).days * 86400 * 1000000)
    if isinstance(x, datetime.timedelta):
        return ("D", (x.days * 86400 + x.seconds) * 1000000 + x.microseconds)
    return x


def is_stringish(a):
    return isinstance(a.dtype, np.dtypes.StringDType) or a.dtype.kind == "U"


def cells(a):
    """Canonical cells of a real column / vector / ndarray."""
    a = np.asarray(a)
    s = is_stringish(a)
    return [acell(x, s) for x in a]


def same_float(a, b):
    if a != a or b != b:
        return a != a and b != b
    return a == b and math.copysign(1.0, a) == math.copysign(1.0, b)


def same_cell(a, b, numeric_loose=False, tol=None):
    """
    Both missing, or equal: floats bit-exact incl. sign of zero (unless tol / numeric_loose),
    bool never equal to int, tuples (datetimes) by value.
    """
    if a is None or b is None:
        return a is None and b is None
    if isinstance(a, float) and isinstance(b, float):
        if tol is not None:
            if a != a or b != b:
                return a != a and b != b
            if a == b:
                return True
            return abs(a - b) <= max(tol[1], tol[0] * max(abs(a), abs(b)))
        if numeric_loose:
            return (a != a and b != b) or a == b
        return same_float(a, b)
    if numeric_loose or tol is not None:
        num = (int, float)
        if isinstance(a, num) and isinstance(b, num) and not isinstance(a, bool) and not isinstance(b, bool):
            if tol is not None:
                return same_cell(float(a), float(b), tol=tol)
            return float(a) == float(b) if (isinstance(a, float) or isinstance(b, float)) else a == b
    if type(a) is not type(b):
        # bool vs int and str vs bytes are different cells
        return False
    return a == b


def dtype_tag(a):
    """A JSON-able, comparison-friendly description of a column's dtype."""
    a = np.asarray(a)
    if isinstance(a.dtype, np.dtypes.StringDType):
        return "string"
    if a.dtype.kind == "U":
        return "U"
    if a.dtype.kind == "S":
        return "S"
    return str(a.dtype.newbyteorder("=")) if a.dtype.kind in "iufMmc" else str(a.dtype)       # byte order is not part of the type


def kind_dtype_tag(kind):
    return {"f": "float64", "f32": "float32", "i": "int64", "i32": "int32", "i8": "int8", "u8": "uint8", "u64": "uint64", "b": "bool", "s": "string",
            "u": "U", "d": "datetime64[D]", "t": "datetime64[us]", "tm": "datetime64[ms]",
            "ts": "datetime64[s]", "tn": "datetime64[ns]", "td": "timedelta64[s]", "o": "object", "oi": "object",
            "ob": "object", "obn": "object", "ol": "object", "y": "S"}[kind]


# -- snapshots ------------------------------------------------------------------------------

def snap_array(a):
    a = np.asarray(a)
    if a.dtype.kind == "O" or isinstance(a.dtype, np.dtypes.StringDType):
        body = tuple(repr(x) for x in a.tolist())
    else:
        body = a.tobytes()
    return (dtype_tag(a), str(a.dtype) if a.dtype.kind in "US" else "", a.shape, body)


def snap_frame(data):
    return (tuple(dict.keys(data)), tuple(snap_array(v) for v in dict.values(data)),
            tuple(getattr(data, "_group_colnames", ())))


def snap_any(x):
    if isinstance(x, di.DataFrame):
        return ("frame", snap_frame(x))
    if isinstance(x, np.ndarray):
        return ("array", snap_array(x))
    if isinstance(x, di.ListOfDicts):
        return ("lod", repr([dict(i) for i in x]))
    return ("py", repr(x))


# -- whole-row checks shared by C02/C03/C04/C05/C09 -------------------------------------------

def table(data):
    """name -> (dtype tag, canonical cells) of a real frame, taken independently of dataiter."""
    return {k: (dtype_tag(v), cells(v)) for k, v in dict.items(data)}


def check_whole_rows(what, out, src, names=None, rid="_rid_", exact_dtype=True):
    """
    Every output row equals the source row named by its row id, in every column, bit-exactly;
    column names/order are `names` (default: the source's). Returns the list of row ids.
    `src` is a table() snapshot taken before the call.
    """
    from .runner import Violation
    names = list(src) if names is None else list(names)
    got_names = list(dict.keys(out))
    if got_names != names:
        raise Violation(f"{what}: column names/order changed", got=got_names, want=names)
    lens = {len(np.asarray(v)) for v in dict.values(out)}
    if len(lens) > 1:
        raise Violation(f"{what}: result is not rectangular", lens=sorted(lens))
    if rid not in got_names:
        raise Violation(f"{what}: row id column lost")
    rids = [int(x) for x in np.asarray(out[rid])]
    nsrc = len(src[rid][1])
    for r in rids:
        if not 0 <= r < nsrc:
            raise Violation(f"{what}: output row with unknown row id", rid=r)
    for name in names:
        tag, scells = src[name]
        col = out[name]
        if np.asarray(col).ndim != 1:
            raise Violation(f"{what}: column {name!r} is not one-dimensional")
        if exact_dtype and dtype_tag(col) != tag:
            raise Violation(f"{what}: dtype of column {name!r} changed", got=dtype_tag(col), want=tag)
        ocells = cells(col)
        for j, r in enumerate(rids):
            if not same_cell(ocells[j], scells[r]):
                raise Violation(f"{what}: cell differs from its source row", column=name, out_row=j,
                                src_row=r, got=ocells[j], want=scells[r])
    return rids
