# -*- coding: utf-8 -*-
"""C20 — text rendering is total, side-effect free and structurally faithful."""

import contextlib
import io
import json
import os

import numpy as np
import wcwidth
import dataiter as di
from hypothesis import strategies as st

from . import build, gen
from .runner import Violation

ID = "C20"
RULE = ("plan = object of one of the four classes (Vector of any kind, DataFrame 0..8 rows x 0..6 columns (0..20 x 0..10 thorough), "
        "GeoJSON incl. null geometries, ListOfDicts) with strings containing East-Asian wide, combining and zero-width "
        "characters, newlines, (for totality only) control characters, floats mixing NaN/inf/1e-300/1e300, object cells; options "
        "max_rows / max_width / truncate_width / max_elements / max_items in {None, 1, 2, 5, 1000}; PRINT_FLOAT_PRECISION 0..12, "
        "PRINT_THOUSAND_SEPARATOR in {'', ',', ' '}, PRINT_TRUNCATE_WIDTH, PRINT_MAX_*, COLUMNS in {20, 80, 200}. Oracle: str, "
        "repr, to_string, print_ never raise, return/emit str and leave the object unchanged; DataFrame text: framing lines, "
        "blocks of exactly 3 + min(nrow, max_rows) lines with equal display width, every column name and dtype label as an "
        "in-order subsequence of the header lines, total row count stated iff rows are cut; Vector text ends with the dtype "
        "label and contains '...' iff cut; ListOfDicts text is the JSON of head(max_items) plus the total iff cut; GeoJSON "
        "geometry cells render as <Type>. Non-trivial: ≥ 2 columns wrapping into ≥ 2 blocks, or a wide/combining character, "
        "or rows cut, or a 0-row / 0-column shape. Distinct = plan hash.")
CASES = {"quick": 1500, "thorough": 12000}
FUZZ_RUNS = {"thorough": 20000}     # coverage-guided leg, 8 processes (vlib/fuzz.py)

WIDE = ["日本", "한글", "ａｂ", "é", "a​b", "😀", "ﬁ", "İ"]
WIDE += ["❤\ufe0f", "1\ufe0f\u20e3", "👨\u200d👩\u200d👧", "e\u0301"]     # variation-selector, keycap and ZWJ sequences, combining mark
MULTI = ["l\nm", "first\nsecond line", "\nlead",
         # every line boundary str.splitlines knows makes a cell multi-line, not only "\n"
         "a\rb", "v\x0bt", "f\x0cf", "s\x1cs", "g\x1dg", "r\x1er", "n\x85l", "u\u2028l", "p\u2029s", "c\r\nd"]
CTRL = ["a\tb", "x\x07y", "e\x1b[0m", "r\rs", "z\x00"]
NAMES = ["a", "b", "c", "name", "日本", "é", "wide_column_name_abcdefgh", "x y", "items", "n1", "", " "]       # "" is a name like any other
EXOTIC = ["complex128", "complex64", "structured", "float16", "void"]
OPT = [None, 1, 2, 5, 1000]


def _strs(ctrl):
    pool = ["", "a", "ab", "q" * 40, "q" * 80, " "] + WIDE + MULTI + (CTRL if ctrl else [])
    return st.sampled_from(pool)


@st.composite
def _col_vals(draw, kind, n, ctrl):
    if kind in ("s", "u", "o"):
        vals = [draw(_strs(ctrl)) for _ in range(n)]
        if kind == "u":
            vals = [v.rstrip("\x00") for v in vals]
        if kind == "o":
            vals = [None if v == "" else v for v in vals]
        return vals
    if kind == "f":
        return [draw(st.sampled_from([gen.NAN, gen.INF, -gen.INF, 0.0, -0.0, 1e-300, 1e300, 1.5, 1234567.891, 1e16, 0.1,
                                      123456789012.0])) for _ in range(n)]
    return draw(gen.values(kind, n))


@st.composite
def _settings(draw):
    s = {}
    if draw(st.booleans()):
        s["PRINT_FLOAT_PRECISION"] = draw(st.integers(0, 12))
    if draw(st.booleans()):
        s["PRINT_THOUSAND_SEPARATOR"] = draw(st.sampled_from(["", ",", " ", "'", ".", "_", "\u202f", "\u2009"]))
    if draw(st.integers(0, 3)) == 0:
        s["PRINT_TRUNCATE_WIDTH"] = draw(st.sampled_from([2, 5, 36, 100]))
    if draw(st.integers(0, 3)) == 0:
        s["PRINT_MAX_ROWS"] = draw(st.sampled_from([1, 3, 100]))
    if draw(st.integers(0, 3)) == 0:
        s["PRINT_MAX_ELEMENTS"] = draw(st.sampled_from([1, 3, 100]))
    if draw(st.integers(0, 3)) == 0:
        s["PRINT_MAX_ITEMS"] = draw(st.sampled_from([1, 3, 10]))
    if draw(st.booleans()):
        s["COLUMNS"] = draw(st.sampled_from([20, 80, 200]))
    return s


@st.composite
def _plan(draw, big):
    cls = draw(st.sampled_from(["frame", "frame", "frame", "vector", "vector", "geojson", "lod"]))
    ctrl = draw(st.integers(0, 5)) == 0
    plan = {"cls": cls, "ctrl": ctrl, "settings": draw(_settings())}
    if draw(st.integers(0, 5)) == 0:
        plan["np_ints"] = draw(st.sampled_from(["uint8", "int8", "int16", "int64", "zerod", "float_width", "float_width"]))
    if cls in ("frame", "geojson") and draw(st.integers(0, 19)) == 0:
        plan["repeat_rows"] = draw(st.sampled_from([300, 1000]))
        plan["np_ints"] = draw(st.sampled_from(["uint8", "int8", "uint8", None]))
    if cls == "frame" and draw(st.integers(0, 9)) == 0:
        plan["enum_names"] = True
    if cls in ("frame", "geojson") and draw(st.integers(0, 5)) == 0:
        plan["grouped"] = True            # the frame carries a group_by mark (it was, or is about to be, aggregated)
    if cls in ("frame", "geojson"):
        n = draw(gen.nrows(20 if big else 8))
        k = draw(st.integers(0, 10 if big else 6))
        names = draw(st.lists(st.sampled_from(NAMES), min_size=k, max_size=k, unique=True))
        cols = []
        for nm in names:
            kind = draw(st.sampled_from(["f", "i", "b", "s", "s", "u", "d", "t", "td", "o", "ob", "y", "f32", "i8", "u8", "tm", "ts", "ol", "tn"]))
            cols.append({"name": nm, "kind": kind, "vals": draw(_col_vals(kind, n, ctrl))})
        if n and draw(st.integers(0, 11)) == 0:
            # a RELATION between texts: name, dtype label and every cell of a column have the same number of code
            # points while their display widths differ (East Asian wide characters)
            crafted = [
                {"name": "日本語の列", "kind": "i", "vals": [draw(st.integers(10000, 99999)) for _ in range(n)]},      # "int64"
                {"name": "完了済み", "kind": "b", "vals": [True] * n},                                                 # "bool" / "True"
                {"name": "name_6", "kind": "s", "vals": [draw(st.sampled_from(["日本語abc", "abcdef", "ＡＢＣdef"])) for _ in range(n)]},  # "string"
                {"name": "値のならび", "kind": "i", "vals": [draw(st.integers(-9999, -1000)) for _ in range(n)]},
            ]
            pick = draw(st.lists(st.integers(0, 3), min_size=1, max_size=3, unique=True))
            cols = [crafted[j] for j in pick] + cols[:draw(st.integers(0, 2))]
        plan["frame"] = {"n": n, "cols": cols}
        if draw(st.integers(0, 7)) == 0:
            # one more column of a dtype the usual builders do not produce ("for every dtype")
            plan["exotic"] = [draw(st.sampled_from(EXOTIC)), draw(st.integers(0, len(cols)))]
        if cls == "geojson":
            plan["geometry"] = [draw(st.sampled_from([None, "Point", "Polygon", "MultiLineString"])) for _ in range(n)]
            plan["geometry_at"] = draw(st.integers(0, k))          # position of the geometry column among the others
        plan["opts"] = {"max_rows": draw(st.sampled_from(OPT)), "max_width": draw(st.sampled_from(OPT + [30, 60])),
                        "truncate_width": draw(st.sampled_from(OPT))}
    elif cls == "vector":
        kind = draw(st.sampled_from(["f", "f", "i", "b", "s", "s", "u", "d", "t", "td", "o", "oi", "y", "f32", "i8", "u8", "tm", "ts", "ob", "ol", "tn"]))
        n = draw(st.integers(0, 30 if big else 12))
        plan["kind"] = kind
        plan["vals"] = draw(_col_vals(kind, n, ctrl))
        if draw(st.integers(0, 9)) == 0:
            plan["exotic"] = [draw(st.sampled_from(EXOTIC)), 0]
        plan["opts"] = {"max_elements": draw(st.sampled_from(OPT))}
    else:
        n = draw(st.integers(0, 8))
        items = []
        for i in range(n):
            it = {"i": i}
            for key in draw(st.lists(st.sampled_from(["a", "b", "日本", "x y"]), max_size=3, unique=True)):
                it[key] = draw(st.one_of(st.none(), st.booleans(), st.integers(-10**12, 10**12), _strs(ctrl),
                                         st.sampled_from([0.5, 1e300, -0.0])))
            items.append(it)
        plan["items"] = items
        plan["opts"] = {"max_items": draw(st.sampled_from(OPT))}
    return plan


def strategy(tier):
    return _plan(tier != "quick")


def _has_wide(plan):
    texts = []
    if "frame" in plan:
        for c in plan["frame"]["cols"]:
            texts.append(c["name"])
            texts += [v for v in c["vals"] if isinstance(v, str)]
    if "vals" in plan:
        texts += [v for v in plan["vals"] if isinstance(v, str)]
    for it in plan.get("items", []):
        texts += [v for v in it.values() if isinstance(v, str)]
    return any(wcwidth.wcswidth(t) not in (len(t), -1) for t in texts)


def nontrivial(plan):
    if _has_wide(plan):
        return True
    if plan["cls"] in ("frame", "geojson"):
        fp = plan["frame"]
        n, k = fp["n"], len(fp["cols"]) + (plan["cls"] == "geojson")
        if n == 0 or k == 0:
            return True
        mr = plan["opts"]["max_rows"] or plan["settings"].get("PRINT_MAX_ROWS", 100)
        if mr < n:
            return True
        mw = plan["opts"]["max_width"] or (plan["settings"].get("COLUMNS", 80) - 1)
        return k >= 2 and mw <= 30
    if plan["cls"] == "vector":
        me = plan["opts"]["max_elements"]
        return me is not None and me < len(plan["vals"])
    mi = plan["opts"]["max_items"]
    return mi is not None and mi < len(plan["items"])


def _apply_settings(s):
    for k, v in s.items():
        if k == "COLUMNS":
            os.environ["COLUMNS"] = str(v)
        else:
            setattr(di, k, v)


def _render_all(obj, opts, what):
    """str, repr, to_string(**opts), print_(**opts): never raise, all text."""
    texts = {}
    for name, f in (("str", lambda: str(obj)), ("repr", lambda: repr(obj)),
                    ("to_string", lambda: obj.to_string(**opts))):
        try:
            t = f()
        except Exception as e:
            raise Violation(f"{what}: {name} raised", exc=f"{type(e).__name__}: {e}"[:300], opts=opts)
        if not isinstance(t, str):
            raise Violation(f"{what}: {name} did not return str", type=str(type(t)))
        texts[name] = t
    if hasattr(obj, "print_"):
        buf = io.StringIO()
        try:
            with contextlib.redirect_stdout(buf):
                obj.print_(**opts)
        except Exception as e:
            raise Violation(f"{what}: print_ raised", exc=f"{type(e).__name__}: {e}"[:300], opts=opts)
        texts["print_"] = buf.getvalue()
        if texts["print_"] != texts["to_string"] + "\n":
            raise Violation(f"{what}: print_ does not emit to_string", printed=texts["print_"][:200])
    if texts["str"] != texts["repr"]:
        raise Violation(f"{what}: str and repr differ")
    return texts["to_string"]


def _subseq(needles, hay):
    pos = 0
    for nd in needles:
        i = hay.find(nd, pos)
        if i < 0:
            return nd
        pos = i + len(nd)
    return None


def _check_frame_text(text, data, plan, labels=None):
    opts, st_ = plan["opts"], plan["settings"]
    names = list(dict.keys(data))
    nrow = data.nrow
    if not names:
        if text != "":
            raise Violation("a frame without columns renders to something", text=text[:100])
        return
    max_rows = opts["max_rows"] or st_.get("PRINT_MAX_ROWS", 100)
    shown = min(nrow, max_rows)
    lines = text.split("\n")
    cut = max_rows < nrow
    if cut:
        tail = lines.pop()
        if str(nrow) not in tail:
            raise Violation("rows are cut but the total row count is not stated", tail=tail, nrow=nrow)
    if lines[0] != "." or lines[-1] != ".":
        raise Violation("data frame text is not framed by '.' lines", first=lines[0], last=lines[-1], cut=cut)
    body = lines[1:-1]
    blocks, cur = [], []
    for ln in body:
        if ln == "":
            blocks.append(cur); cur = []
        else:
            cur.append(ln)
    blocks.append(cur)
    if plan["ctrl"]:
        return
    for b in blocks:
        if len(b) != 3 + shown:
            raise Violation("a block does not have header, dtype, rule and min(nrow, max_rows) data lines",
                            got=len(b), want=3 + shown, block=b[:6])
        widths = {wcwidth.wcswidth(ln) for ln in b}
        if len(widths) != 1 or -1 in widths:
            raise Violation("lines of a block have different display widths", widths=[wcwidth.wcswidth(x) for x in b], block=b[:6])
    header = " ".join(b[0] for b in blocks)
    missing = _subseq(names, header)
    if missing is not None:
        raise Violation("a column name is missing from the header lines (in order)", name=missing, header=header)
    labels = labels or [str(data[x].dtype_label) for x in names]
    second = " ".join(b[1] for b in blocks)
    missing = _subseq(labels, second)
    if missing is not None:
        raise Violation("a dtype label is missing from the second lines (in order)", label=missing, line=second)
    if not cut and any("rows total" in ln for ln in lines):
        raise Violation("total row count stated although no rows are cut")


def _exotic(name, n):
    if name.startswith("complex"):
        return np.array([[1 + 2j, complex("nan"), -0.5j, 1e300 + 0j, 0j][i % 5] for i in range(n)], dtype=name)
    if name == "structured":
        return np.array([(i, i / 2) for i in range(n)], dtype=[("p", np.int64), ("q", np.float64)])
    if name == "float16":
        return np.array([[1.5, float("nan"), 65504.0, -0.0][i % 4] for i in range(n)], dtype=np.float16)
    return np.array([bytes([i % 256, 7, 0]) for i in range(n)], dtype="V3")


def _arg(k, v, how):
    """a count / width as the caller might pass it; a width may also be a whole float (the library's own default is inf)"""
    if how == "float_width":
        return float(v) if k in ("truncate_width", "PRINT_TRUNCATE_WIDTH") and isinstance(v, int) and not isinstance(v, bool) else v
    return _np_int(v, how)


def _np_int(v, how):
    """a count as the caller might pass it: a narrow NumPy integer scalar or a zero-dimensional array"""
    if how is None or v is None or isinstance(v, bool) or not isinstance(v, int):
        return v
    if how == "float_width":
        return v                                   # (only widths are given as floats, see _np_width)
    if how == "zerod":
        return np.array(v)
    info = np.iinfo(how)
    return np.dtype(how).type(v) if info.min <= v <= info.max else v


def check(plan, ctx):
    how = plan.get("np_ints")
    _apply_settings({k: (_arg(k, v, how) if k.startswith("PRINT_MAX") or k == "PRINT_TRUNCATE_WIDTH" else v) for k, v in plan["settings"].items()})
    cls, opts = plan["cls"], dict(plan["opts"])
    if how:
        ctx.cls("counts_as_numpy_" + how)
    if plan.get("repeat_rows") and cls in ("frame", "geojson") and plan["frame"]["n"]:
        # the drawn rows over and over: more rows than a narrow integer type can count
        m, fp0 = plan["repeat_rows"], plan["frame"]
        plan = dict(plan, frame={"n": m, "cols": [dict(c, vals=[c["vals"][i % fp0["n"]] for i in range(m)]) for c in fp0["cols"]]})
        if "geometry" in plan:
            plan["geometry"] = [plan["geometry"][i % fp0["n"]] for i in range(m)]
        ctx.cls("frame_of_300_rows_or_more")
    ctx.cls("cls_" + cls, "ctrl" if plan["ctrl"] else "layout_checked")
    ctx.cls(*("setting_" + k for k in plan["settings"]), *("opt_" + k for k, v in plan["opts"].items() if v is not None))
    if cls in ("frame", "geojson"):
        ctx.cls(*("colkind_" + c["kind"] for c in plan["frame"]["cols"]))
        mr = plan["opts"].get("max_rows") or plan["settings"].get("PRINT_MAX_ROWS", 100)
        if plan["frame"]["n"] > mr:
            ctx.cls("rows_cut")
        if any(isinstance(v, str) and ("\n" in v or len(v) > 36) for c in plan["frame"]["cols"] for v in c["vals"]):
            ctx.cls("multiline_or_long_cell")
        if any(isinstance(v, str) and any(ord(ch) > 0x2e7f for ch in v) for c in plan["frame"]["cols"] for v in c["vals"]):
            ctx.cls("wide_or_astral_characters")
    elif cls == "vector":
        ctx.cls("veckind_" + plan["kind"], "vec_len0" if not plan["vals"] else "vec_lenN")
    if cls in ("frame", "geojson"):
        data = build.frame(plan["frame"], rid=None)
        if plan.get("exotic"):
            kindname, at = plan["exotic"]
            items = list(dict.items(data))
            items.insert(min(at, len(items)), ("exo", _exotic(kindname, plan["frame"]["n"]).view(di.DataFrameColumn)))
            data = di.DataFrame(dict(items))
            ctx.cls("colkind_" + kindname)
        if cls == "geojson":
            g = np.empty(plan["frame"]["n"], dtype=object)
            for j, t in enumerate(plan["geometry"]):
                g[j] = None if t is None else {"type": t, "coordinates": [j, j]}
            items = list(dict.items(data))
            items.insert(min(plan.get("geometry_at", len(items)), len(items)), ("geometry", g.view(di.DataFrameColumn)))
            data = di.GeoJSON(dict(items))
            if plan["frame"]["n"] and "geometry" not in data:
                raise RuntimeError("builder: geometry column missing")
        if plan.get("enum_names") and plan["frame"]["cols"]:
            # column names that are members of a str-mixin Enum (str subclasses with their own __str__): a name is
            # its characters, not its repr
            import enum
            Col = enum.Enum("Col", [(f"M{i}", c["name"]) for i, c in enumerate(plan["frame"]["cols"])], type=str)
            data = type(data)({(Col(k) if any(k == c["name"] for c in plan["frame"]["cols"]) else k): v for k, v in dict.items(data)})
            ctx.cls("enum_member_column_names")
        if plan.get("grouped") and len(dict.keys(data)):
            data.group_by(list(dict.keys(data))[0])
            ctx.cls("receiver_carries_a_group_by_mark")
        before = build.snap_frame(data)
        text = _render_all(data, {k: _arg(k, v, how) for k, v in opts.items()}, cls)
        if build.snap_frame(data) != before:
            raise Violation(f"rendering changed the {cls}")
        labels = None
        if cls == "geojson":
            labels = [str(data[x].dtype_label) for x in dict.keys(data)]
        _check_frame_text(text, data, plan, labels)
        if cls == "geojson" and not plan["ctrl"] and plan["frame"]["n"]:
            mr = opts["max_rows"] or plan["settings"].get("PRINT_MAX_ROWS", 100)
            tw = opts["truncate_width"] or plan["settings"].get("PRINT_TRUNCATE_WIDTH", 36)
            for t in plan["geometry"][:mr]:
                if t is not None and len(t) + 2 <= tw and f"<{t}>" not in text:
                    raise Violation("geometry cell is not rendered as <Type>", type=t)
        if plan["frame"]["n"] == 0:
            ctx.cls("zero_rows")
        if not plan["frame"]["cols"]:
            ctx.cls("zero_columns")
    elif cls == "vector":
        v = build.vec(plan["kind"], plan["vals"])
        if plan.get("exotic"):
            v = di.Vector.fast(_exotic(plan["exotic"][0], len(plan["vals"])))
            ctx.cls("veckind_" + plan["exotic"][0])
        before = build.snap_array(v)
        buf_opts = {k: v_ for k, v_ in opts.items() if v_ is not None}
        text = _render_all(v, {k: _np_int(v_, how) for k, v_ in buf_opts.items()}, "vector")
        if build.snap_array(v) != before:
            raise Violation("rendering changed the vector")
        if not text.rstrip().endswith(str(v.dtype_label)):
            raise Violation("vector text does not end with the dtype label", tail=text[-40:], label=str(v.dtype_label))
        me = opts["max_elements"] if opts["max_elements"] is not None else plan["settings"].get("PRINT_MAX_ELEMENTS", 100)
        cutv = me < len(plan["vals"])
        has_dots = any(tok == "..." for tok in text.split())
        lit = any(isinstance(x, str) and "..." in x for x in plan["vals"])
        if not lit and has_dots != cutv:
            raise Violation("vector text contains '...' iff elements are cut", cut=cutv, text=text[:200])
    else:
        items = plan["items"]
        data = di.ListOfDicts([dict(x) for x in items])
        buf_opts = {k: v_ for k, v_ in opts.items() if v_ is not None}
        text = _render_all(data, buf_opts, "list of dicts")
        if [dict(x) for x in data] != items:
            raise Violation("rendering changed the list of dicts")
        mi = opts["max_items"] if opts["max_items"] is not None else plan["settings"].get("PRINT_MAX_ITEMS", 10)
        cutl = mi < len(items)
        body = text
        if cutl:
            marker = f" ... {len(items)} items total"
            if not text.endswith(marker):
                raise Violation("items are cut but the total is not stated", tail=text[-60:])
            body = text[:-len(marker)]
        elif "items total" in text.split("\n")[-1] and not any("items total" in str(v) for it in items for v in it.values()):
            raise Violation("total stated although no items are cut")
        try:
            parsed = json.loads(body)
        except Exception as e:
            raise Violation("list text is not the JSON of the shown items", exc=str(e)[:100], text=body[:200])
        if parsed != items[:min(mi, len(items))]:
            raise Violation("list text does not show head(max_items)", got=parsed[:3], want=items[:min(mi, len(items))][:3])


KNOWN = {}
