# -*- coding: utf-8 -*-
"""
Shared Hypothesis strategies (DESIGN 2.3): small pools with deliberate collisions plus a random
tail, missing density as its own draw, 0- and 1-row shapes over-weighted.  Everything produced
is plain data (plans); nothing here touches dataiter.
"""

import datetime

from hypothesis import strategies as st

NAN = float("nan")
INF = float("inf")
P49 = "p" * 49

POOLS = {
    "f": [NAN, 0.0, -0.0, 1.0, -1.0, 2.5, INF, -INF, 2.0**53, 2.0**53 + 2, -2.0**60, 1e-7, 1e16, 5e-324],
    "i": [0, 1, -1, -2, 2, 7, 2**61 - 1, 2**31, -2**31, 2**53, 2**53 + 1, 2**53 + 2, -(2**53 + 1), 2**63 - 1, 2**63 - 2, -2**63 + 1, -2**63,
          127, 128, -128, -129, 255, 256, 32767, 32768, -32768, 65535, 65536, 2**31 - 1, 2**32],     # width boundaries
    "b": [True, False],
    "s": ["", "a", "b", "ab", "B", "é", "日本", "😀", " a", P49 + "a", P49 + "b", P49, "q" * 70, "a\x00", "a\x00b",
          "None", "nan", "NaT", "Ł", "İ", "\x00", "\x00\x00", "a\x00bc", "a\x00bd", "C:\\temp", "tail\\", "x, y", "k: v", "\U0010ffff", "\U0010ffffa"],      # the highest code point is a character too      # spellings of other dtypes' missing values; code points >= U+0100
    "u": ["", "a", "b", "ab", "B", "é", "日本", " a", "None", "nan", "Ł"],
    "d": [None, "1970-01-01", "1969-12-31", "2020-12-31", "2021-01-03", "2024-02-29", "0001-01-01", "9999-12-31"],
    "t": [None, "1970-01-01T00:00:00.000001", "1969-12-31T23:59:59", "2020-12-31T12:00:00",
          "2024-02-29T00:00:00", "0001-01-01T00:00:00", "9999-12-31T23:59:59.999999"],
    "tm": [None, "1970-01-01T00:00:00.001", "1969-12-31T23:59:59", "2020-12-31T12:00:00"],
    "ts": [None, "1970-01-01T00:00:01", "1969-12-31T23:59:59", "2020-12-31T12:00:00"],
    "td": [None, 0, 1, -5, 86400],
    # nanosecond timestamps: neighbours within one microsecond, on both sides of the epoch
    "tn": [None, "1970-01-01T00:00:00.000000001", "1970-01-01T00:00:00.000000002", "2020-12-31T12:00:00.000000500",
           "2020-12-31T12:00:00.000000499", "2020-12-31T12:00:00.000001", "1969-12-31T23:59:59.999999999", "2020-12-31T12:00:00"],
    "o": [None, "a", "b", "ab", "B", "None", "nan"],
    "oi": [None, 1, 2, 3],
    "ob": [None, True, False],
    "obn": [None, True, False],
    "ol": [None, [], ["a"], ["a", "b"], ["red", "green", "blue"]],        # object cells that are lists (unhashable)
    "y": ["a", "b", "ab", "B"],
    "i8": [-128, -127, -1, 0, 1, 127],
    "u64": [0, 1, 5, 2**63, 2**63 + 2048, 2**64 - 2048],       # unsigned values no int64 holds
    "u8": [0, 1, 2, 254, 255],
    "f32": [NAN, 0.0, -0.0, 1.0, -1.5, 0.1, INF, -INF, 16777216.0, 3.4028234663852886e38],    # 0.1 is not a float32 value: rounded on build
    "i32": [0, 1, -1, 7, 2**31 - 1, -2**31],
}

# Small pools (2-3 distinct non-missing values) that make ties and duplicate keys the norm.
TIGHT = {
    "f": [NAN, 0.0, -0.0, 1.0, INF], "i": [0, 1, 2**53, 2**53 + 1], "b": [True, False],
    "s": ["", "a", "b", P49 + "a", "a\x00"], "u": ["", "a", "b"], "d": [None, "1970-01-01", "2020-12-31"],
    "t": [None, "1970-01-01T00:00:00.000001", "2020-12-31T12:00:00"], "tm": POOLS["tm"][:3], "ts": POOLS["ts"][:3],
    "td": [None, 0, 1], "tn": [None, "2020-12-31T12:00:00.000000500", "2020-12-31T12:00:00.000000499", "2020-12-31T12:00:00.000001"],
    "o": [None, "a", "b"], "oi": [None, 1, 2], "ob": [None, True, False], "obn": [None, True, False], "ol": [None, ["a"], ["a", "b"]], "y": ["a", "b"],
    "i8": [-128, 0, 127], "u8": [0, 1, 255], "u64": [0, 2**63, 2**64 - 2048], "f32": [NAN, 0.0, 1.0, 0.5], "i32": [0, 1, 2**31 - 1],
}

_text = st.text(alphabet=st.characters(blacklist_categories=("Cs",), blacklist_characters="\x00"), max_size=12)
_dates = st.dates(min_value=datetime.date(1, 1, 1), max_value=datetime.date(9999, 12, 31)).map(lambda d: d.isoformat())
_datetimes = st.datetimes(min_value=datetime.datetime(1, 1, 1), max_value=datetime.datetime(9999, 12, 31, 23, 59, 59))

TAILS = {
    "f": st.floats(allow_nan=True, allow_infinity=True, width=64),
    "i": st.integers(-2**63, 2**63 - 1),
    "b": st.booleans(),
    "s": _text,
    "u": _text.filter(lambda s: not s.endswith("\x00")),
    "d": _dates,
    "t": _datetimes.map(lambda x: x.isoformat(timespec="microseconds")),
    "tm": _datetimes.map(lambda x: x.replace(microsecond=(x.microsecond // 1000) * 1000).isoformat(timespec="milliseconds")),
    "ts": _datetimes.map(lambda x: x.replace(microsecond=0).isoformat(timespec="seconds")),
    "td": st.integers(-10**9, 10**9),
    "tn": st.tuples(st.datetimes(min_value=datetime.datetime(1700, 1, 1), max_value=datetime.datetime(2200, 1, 1)), st.integers(0, 999)).map(
        lambda p: p[0].isoformat(timespec="microseconds") + "%03d" % p[1]),
    "o": st.text(alphabet="abcAB é", max_size=4),
    "oi": st.integers(-9, 9),
    "ob": st.booleans(),
    "obn": st.booleans(),
    "ol": st.lists(st.sampled_from(["a", "b", "c"]), max_size=3),
    "y": st.text(alphabet="abAB", min_size=1, max_size=3),
    "i8": st.integers(-128, 127),
    "u64": st.sampled_from([0, 1, 2**32, 2**62, 2**63, 2**64 - 4096]),
    "u8": st.integers(0, 255),
    "f32": st.floats(allow_nan=True, allow_infinity=True, width=32),
    "i32": st.integers(-2**31, 2**31 - 1),
}

NA_VALUE = {"f": NAN, "f32": NAN, "s": "", "u": "", "d": None, "t": None, "tm": None, "ts": None, "tn": None, "td": None,
            "o": None, "oi": None, "ob": None, "obn": None, "ol": None}


# Distinct values whose hashes coincide in CPython (hash(-1) == hash(-2), numbers are hashed modulo 2**61 - 1, inf hashes
# to 314159), next to a missing value: whatever remembers only hashes, or packs keys into one number, merges them.
TWINS = {
    "f": [NAN, -1.0, -2.0, 0.5, 2.0**60, INF, 314159.0], "f32": [NAN, -1.0, -2.0], "i": [-1, -2, 0, 2**61 - 1, 2**61],
    "i32": [-1, -2, 0], "i8": [-1, -2, 0], "d": [None, "1969-12-31", "1969-12-30"], "td": [None, -1, -2],
    "tn": [None, "1969-12-31T23:59:59.999999999", "1969-12-31T23:59:59.999999998"],
    # strings that any escaping of NULs has to keep apart: NUL vs U+0001 / U+0002, equal up to an embedded NUL
    "s": ["", "a\x00", "a\x01\x01", "a\x01", "a\x01\x02", "a\x00b", "a\x00c", "a", "\U0010ffff", "\U0010ffffa", ""],
    "t": [None, "1969-12-31T23:59:59.999999", "1969-12-31T23:59:59.999998"], "oi": [None, -1, -2],
}


def value(kind, mode="pool"):
    """One cell value. mode: tight (2-3 values), twins (hash-colliding values), pool (pool + 25 % tail), wide (50 % tail)."""
    if mode == "twins":
        return st.sampled_from(TWINS.get(kind, TIGHT[kind]))
    if mode == "tight":
        return st.sampled_from(TIGHT[kind])
    pool = st.sampled_from(POOLS[kind])
    if mode == "pool":
        return st.one_of(pool, pool, pool, TAILS[kind])
    return st.one_of(pool, TAILS[kind])


@st.composite
def values(draw, kind, n, mode=None, na=None):
    """n cell values of one kind; na in {None(draw), 'none', 'some', 'all'}."""
    if mode is None:
        mode = draw(st.sampled_from(["tight", "tight", "tight", "pool", "pool", "pool", "wide", "wide", "twins"]))
    if na is None:
        na = draw(st.sampled_from(["asis", "asis", "asis", "none", "all"]))
    if kind not in NA_VALUE:
        na = "asis"
    if na == "all":
        return [NA_VALUE[kind]] * n
    vals = [draw(value(kind, mode)) for _ in range(n)]
    if na == "none":
        from .build import plan_isna
        repl = [v for v in POOLS[kind] if not plan_isna(kind, v)]
        vals = [draw(st.sampled_from(repl)) if plan_isna(kind, v) else v for v in vals]
    return vals


def nrows(max_rows):
    """Row counts with 0 and 1 over-weighted; one integer draw so that it shrinks towards 0."""
    # a few sizes beyond 16 rows also in the quick tier: NumPy switches sort algorithms there
    extra = [0, 0, 1, 1, 2, 3, 3] + ([17, 24, 33] if max_rows < 17 else [])
    return st.integers(0, max_rows + len(extra)).map(
        lambda x: x if x <= max_rows else extra[x - max_rows - 1])


NAMES_PLAIN = ["a", "b", "c", "x1", "é", "_p", "g", "h"]
NAMES_CLASH = ["items", "keys", "filter", "sort", "copy", "update", "pop", "nrow", "colnames", "values", "get"]
NAMES_NONID = ["a b", "1x", "x-y", ""]
NAMES_PADDED = [" a", "a ", " p ", "\tq"]            # surrounding whitespace is part of a name


@st.composite
def names(draw, k, plain_only=False):
    if plain_only:
        pool = NAMES_PLAIN
    else:
        pool = NAMES_PLAIN * 3 + NAMES_CLASH + NAMES_NONID[:3] + NAMES_PADDED
    out = []
    while len(out) < k:
        n = draw(st.sampled_from(pool))
        if n not in out:
            out.append(n)
    return out


ALL_FRAME_KINDS = ["f", "i", "b", "s", "u", "d", "t", "td", "o", "oi", "ob"]


@st.composite
def frame_plan(draw, kinds=ALL_FRAME_KINDS, max_rows=12, max_cols=5, min_cols=1, min_rows=0,
               plain_names=True, mode=None, prefix=None):
    n = draw(nrows(max_rows))
    n = max(n, min_rows)
    k = draw(st.integers(min_cols, max_cols))
    if prefix is not None:
        nm = [f"{prefix}{j}" for j in range(k)]
    else:
        nm = draw(names(k, plain_only=plain_names))
    cols = []
    for j in range(k):
        kind = draw(st.sampled_from(kinds))
        cols.append({"name": nm[j], "kind": kind, "vals": draw(values(kind, n, mode=mode))})
    return {"n": n, "cols": cols}


@st.composite
def big_values(draw, kind, n, na="none"):
    """
    n cell values (n may be in the hundreds) from a handful of drawn base values laid out by a drawn
    arithmetic pattern: cheap for Hypothesis (a dozen draws), still full of ties and interleavings.
    """
    base = draw(values(kind, draw(st.integers(2, 6)), mode="tight", na=na))
    a, b = draw(st.integers(1, 97)), draw(st.integers(0, 97))
    return [base[(i * a + (i * i // 3) * b) % len(base)] for i in range(n)]


BIG_SIZES = [65, 129, 257, 300]
HUGE_SIZES = [513, 1031, 2049, 5003]           # beyond any plausible "fast path above N elements" threshold


@st.composite
def big_frame_plan(draw, kinds=ALL_FRAME_KINDS, max_cols=3, min_cols=1, prefix="c", sizes=None, na="asis"):
    """A frame of 65 .. 5003 rows whose columns are laid out from a few base values (big_values): a dozen draws."""
    n = draw(st.sampled_from(sizes or (BIG_SIZES + HUGE_SIZES)))
    k = draw(st.integers(min_cols, max_cols))
    cols = []
    for j in range(k):
        kind = draw(st.sampled_from(kinds))
        cols.append({"name": f"{prefix}{j}", "kind": kind, "vals": draw(big_values(kind, n, na=na))})
    return {"n": n, "cols": cols}


VIAS = ["copy", "deepcopy", "slice_all", "filter_all", "select_all", "rbind_halves", "modify_nothing",
        "from_pandas", "from_arrow", "parquet", "npz", "pickle", "sorted_by_rid", "left_join_nothing",
        "marked_by_group_by", "marked_by_group_by", "marked_by_group_by"]


@st.composite
def decorate(draw, fp):
    """Now and then: the same table held in non-contiguous arrays, or reached through a chain of methods (build.frame)."""
    r = draw(st.integers(0, 11))
    if r == 0:
        fp["layout"] = "strided"
    elif r == 2:
        fp["layout"] = "bigendian"
    elif r == 1:
        fp["via"] = draw(st.sampled_from(VIAS))
    return fp
