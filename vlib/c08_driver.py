# -*- coding: utf-8 -*-
"""
Driver run in a fresh interpreter by C08 leg B.  argv[1] = JSON list of [helper, kind] steps.
Executes the steps in order with Numba on (this is where kernels are first used, compiled and cached),
then the same steps with Numba off, and prints {"got": [...], "exp": [...]} as one JSON line.
Environment (set by the caller): DATAITER_USE_NUMBA=true, DATAITER_USE_NUMBA_CACHE, NUMBA_CACHE_DIR, VERIF_REPO.
"""
import json
import os
import sys
import warnings

warnings.simplefilter("ignore")
sys.dont_write_bytecode = True
sys.path.insert(0, os.environ.get("VERIF_REPO", "/repo"))
import numpy as np
import dataiter as di

nan = float("nan")
FR = dict(
    f=np.array([1.0, nan, 3.0, 3.0, nan, 5.0]),
    i=np.array([3, 1, 1, 2, 2, 7]),
    b=np.array([True, False, True, False, False, True]),
    d=np.array(["2020-01-01", "NaT", "2020-01-03", "2020-01-03", "NaT", "2020-01-05"], "datetime64[D]"),
    t=np.array(["2020-01-01T00:00:01", "NaT", "2020-01-03T00:00:00", "2020-01-03T00:00:00", "NaT",
                "2020-01-05T00:00:00"], "datetime64[us]"),
)
data = di.DataFrame(g=[1, 1, 1, 2, 2, 3], **FR)
H = dict(
    all=lambda c: di.all(c), any=lambda c: di.any(c), count=lambda c: di.count(c),
    count_unique=lambda c: di.count_unique(c, drop_na=True), first=lambda c: di.first(c), last=lambda c: di.last(c),
    nth=lambda c: di.nth(c, 1), min=lambda c: di.min(c), max=lambda c: di.max(c), mode=lambda c: di.mode(c),
    mean=lambda c: di.mean(c), median=lambda c: di.median(c), quantile=lambda c: di.quantile(c, 0.5),
    std=lambda c: di.std(c), var=lambda c: di.var(c), sum=lambda c: di.sum(c))


def show(v):
    a = np.asarray(v)
    out = []
    for x in a:
        if x is None:
            out.append(None)
        elif isinstance(x, (np.datetime64, np.timedelta64)):
            out.append(None if np.isnat(x) else str(x))
        elif isinstance(x, (float, np.floating)):
            out.append(None if x != x else float(x))
        elif isinstance(x, (bool, np.bool_)):
            out.append(bool(x))
        elif isinstance(x, (int, np.integer)):
            out.append(int(x))
        else:
            out.append(str(x))
    return [str(a.dtype), out]


def run(steps, numba):
    res = []
    for h, c in steps:
        di.USE_NUMBA = numba
        try:
            res.append(show(data.group_by("g").aggregate(y=H[h](c))["y"]))
        except Exception as e:
            res.append(["EXC", type(e).__name__ + ": " + str(e)[:120]])
    return res


def run_same_call(steps, numba):
    """All steps as summaries of ONE aggregate call (compile order = keyword order within the call)."""
    di.USE_NUMBA = numba
    try:
        out = data.group_by("g").aggregate(**{f"y{i}": H[h](c) for i, (h, c) in enumerate(steps)})
        return [show(out[f"y{i}"]) for i in range(len(steps))]
    except Exception as e:
        return [["EXC", type(e).__name__ + ": " + str(e)[:120]] for _ in steps]


steps = json.loads(sys.argv[1])
same_call = len(sys.argv) > 2 and sys.argv[2] == "call"
got = run_same_call(steps, True) if same_call else run(steps, True)
exp = run_same_call(steps, False) if same_call else run(steps, False)
print(json.dumps({"got": got, "exp": exp}))
