# -*- coding: utf-8 -*-
"""C11 — Vector sort, rank and unique are total and mutually consistent."""

import collections

import numpy as np
import dataiter as di
from hypothesis import strategies as st

from . import build, gen, model
from .runner import Violation

ID = "C11"
RULE = ("plan = (kind, values[0..10 quick / 0..30 thorough]) over every orderable kind (bool, int64/int32/int8/uint8, float64/float32 incl. "
        "±inf/±0.0/NaN, StringDType short/≥50 chars/astral, legacy <U, date, datetime us/ms/s, timedelta, bytes, "
        "object of str or of one-digit ints with None); each plan runs sort(dir=±1), rank(min/max/ordinal) and "
        "unique against a comparator / counting reference. Non-trivial: length ≥ 3 with a tie or a missing value, "
        "or length 0, or all-missing, or a string of ≥ 50 characters. Distinct = hash of the plan JSON.")
CASES = {"quick": 3000, "thorough": 24000}
FUZZ_RUNS = {"thorough": 30000}     # coverage-guided leg, 8 processes (vlib/fuzz.py)
ASSUMPTIONS = ["object vectors are generated only where str() order and natural order coincide "
               "(strings; one-digit non-negative ints) because the statement defines no order for objects"]

KINDS = ["f", "f", "i", "i", "i", "b", "s", "s", "u", "d", "t", "tm", "ts", "td", "o", "oi", "y", "u8", "i8", "i32", "f32", "tn"]


@st.composite
def _plan(draw, max_len):
    if draw(st.integers(0, 29)) == 0:
        pool = [1, "1", True, "True", 1.5, "1.5", None, "a", 2, "2", "None", 0, "0"]
        return {"kind": "om", "vals": [draw(st.sampled_from(pool)) for _ in range(draw(st.integers(0, 8)))]}
    kind = draw(st.sampled_from(KINDS))
    n = draw(st.one_of(st.sampled_from([0, 1, 2, 3]), st.integers(0, max_len)))
    if kind == "i" and draw(st.integers(0, 9 if max_len > 10 else 24)) == 0:
        # long vector of all-distinct integers (first occurrences at every index, incl. 128 and beyond)
        n = draw(st.sampled_from([129, 130, 257, 1031]))
        a, b = draw(st.sampled_from([1, 7, 37, 101])), draw(st.integers(-5, 5))
        return {"kind": "i", "vals": [((i * a) % n) + b for i in range(n)]}
    if kind != "oi" and draw(st.integers(0, 19 if max_len > 10 else 29)) == 0:
        # long vectors (beyond NumPy's small-array sort paths and any plausible size threshold), laid out from a few
        # base values; also in the quick tier, where they are about one case in thirty
        n = draw(st.sampled_from(gen.BIG_SIZES + gen.HUGE_SIZES))
        return {"kind": kind, "vals": draw(gen.big_values(kind, n, na="asis"))}
    if kind == "oi":
        vals = [draw(st.sampled_from([None, 0, 1, 2, 3, 9])) for _ in range(n)]
        if draw(st.integers(0, 9)) == 0:
            vals = [None] * n
    else:
        vals = draw(gen.values(kind, n))
    plan = {"kind": kind, "vals": vals}
    if draw(st.integers(0, 7)) == 0:
        plan["layout"] = draw(st.sampled_from(["strided", "reversed", "bigendian"]))
    if n and kind not in ("u", "y", "i", "b") and draw(st.integers(0, 2)) == 0:
        # history: query, edit cells of the same vector in place, query again
        v = draw(gen.value(kind, "pool")) if kind != "oi" else draw(st.sampled_from([None, 0, 5, 9]))
        if kind == "s" and draw(st.booleans()):
            v = max(vals, key=len) + draw(st.sampled_from(["z", "zz", "q" * 50]))
        plan["edits"] = [[draw(st.integers(0, n - 1)), v]]
    return plan


def strategy(tier):
    return _plan(10 if tier == "quick" else 30)


def nontrivial(plan):
    kind, vals = plan["kind"], plan["vals"]
    if kind == "om":
        return len({str(x) for x in vals}) < len(vals) and len(vals) >= 2
    cs = [build.pcell(kind, v) for v in vals]
    n = len(cs)
    if n == 0:
        return True
    if all(c is None for c in cs):
        return True
    if any(isinstance(v, str) and len(v) >= 50 for v in vals):
        return True
    ids = [model.ident(c) for c in cs]
    return n >= 3 and (len(set(ids)) < n or any(c is None for c in cs))


def _multiset(cs):
    return collections.Counter(repr(c) for c in cs)


def _check_mixed_objects(plan, ctx):
    """object vector of values of several types whose texts may coincide (1 and "1", True and "True"): the library
    orders objects by their text; whatever order that gives, sort is total - a permutation, missing values last"""
    vals = plan["vals"]
    a = np.empty(len(vals), dtype=object)
    for j, x in enumerate(vals):
        a[j] = x
    v = di.Vector.fast(a, object)
    ctx.cls("kind_mixed_objects")
    for d in (1, -1):
        out = ctx.call(f"sort(dir={d})", lambda: v.sort(dir=d))
        got = list(np.asarray(out))
        key = lambda x: (type(x).__name__, repr(x))
        if sorted(map(key, got)) != sorted(map(key, vals)):
            raise Violation("sort of an object vector is not a permutation of its elements", got=got, input=vals)
        k = sum(x is not None for x in vals)
        if any(x is None for x in got[:k]):
            raise Violation("sort of an object vector does not place missing values last", got=got, dir=d)
        texts = [str(x) for x in got[:k]]
        if texts != sorted(texts, reverse=d < 0):
            raise Violation("sort of an object vector is not ordered by the elements' text", got=got, dir=d)


def check(plan, ctx):
    if plan["kind"] == "om":
        return _check_mixed_objects(plan, ctx)
    kind, vals = plan["kind"], list(plan["vals"])
    v = build.vec(kind, vals)
    if plan.get("layout") == "strided" and vals:
        v = build.vec(kind, [x for x in vals for _ in (0, 1)])[::2]           # the same elements as a non-contiguous view
        ctx.cls("receiver_is_a_strided_view")
    elif plan.get("layout") == "reversed" and vals:
        v = build.vec(kind, vals[::-1])[::-1]
        ctx.cls("receiver_is_a_reversed_view")
    elif plan.get("layout") == "bigendian" and vals and v.dtype.kind in "iufMm" and v.dtype.itemsize > 1:
        v = v.astype(v.dtype.newbyteorder(">"))                # the same elements in non-native byte order
        ctx.cls("receiver_in_non_native_byte_order")
    if build.cells(v) != build.cells(build.vec(kind, vals)) and not any(isinstance(x, float) and x != x for x in vals):
        raise RuntimeError("builder: view does not hold the planned elements")
    _check_vec(v, kind, vals, ctx)
    if plan.get("edits"):
        for row, val in plan["edits"]:
            vals[row] = val
            v[row] = build.np_array(kind, [val])[0]
        ctx.cls("queried_again_after_in_place_edit")
        _PHASE[0] = "after an in-place edit of the same vector: "
        try:
            _check_vec(v, kind, vals, ctx)
        finally:
            _PHASE[0] = ""


_PHASE = [""]


class Violation(Violation):                    # prefixes the phase to every message of this module
    def __init__(self, what, **detail):
        super().__init__(_PHASE[0] + what, **detail)


def _check_vec(v, kind, vals, ctx):
    before = build.snap_array(v)
    cs = [build.pcell(kind, x) for x in vals]
    n = len(cs)
    nn = [c for c in cs if c is not None]
    ctx.cls("kind_" + kind, "len0" if n == 0 else "allna" if not nn else "mixed" if len(nn) < n else "full")
    if n >= 65:
        ctx.cls("len_65_to_512" if n < 513 else "len_513_and_more")

    # ---- sort ----
    for d in (1, -1):
        out = ctx.call(f"sort(dir={d})", lambda: v.sort(dir=d))
        got = build.cells(out)
        if len(got) != n or _multiset(got) != _multiset(cs):
            raise Violation("sort is not a permutation of the elements", dir=d, got=got, input=cs)
        if got[len(nn):] != [None] * (n - len(nn)) or any(c is None for c in got[:len(nn)]):
            raise Violation("sort does not place missing values last", dir=d, got=got)
        for a, b in zip(got[:len(nn)], got[1:len(nn)]):
            if model.cmp_cells(a, b) * d > 0:
                raise Violation("sort output not ordered", dir=d, got=got)
        if build.dtype_tag(out) != build.dtype_tag(v):
            raise Violation("sort changed dtype", dir=d, got=build.dtype_tag(out), want=build.dtype_tag(v))

    # ---- rank ----
    # counting definition, evaluated through one stable comparator sort (O(n log n): long vectors stay cheap):
    # strictly-before count = position of the element's tie run, before-or-equal = end of that run
    import functools
    idx_nn = sorted((i for i in range(n) if cs[i] is not None), key=functools.cmp_to_key(lambda i, j: model.cmp_cells(cs[i], cs[j])))
    exp_min, exp_max, exp_ord = [0] * n, [0] * n, [0] * n
    pos = 0
    while pos < len(idx_nn):
        end = pos
        while end + 1 < len(idx_nn) and model.cmp_cells(cs[idx_nn[end + 1]], cs[idx_nn[pos]]) == 0:
            end += 1
        for q in range(pos, end + 1):
            i = idx_nn[q]
            exp_min[i], exp_max[i], exp_ord[i] = pos + 1, end + 1, q + 1       # stable sort: ties by position
        pos = end + 1
    na_idx = [i for i in range(n) if cs[i] is None]
    for q, i in enumerate(na_idx):                   # missing values: after all others, equal among themselves
        exp_min[i], exp_max[i], exp_ord[i] = len(idx_nn) + 1, n, len(idx_nn) + q + 1
    expected = {"min": exp_min, "max": exp_max, "ordinal": exp_ord}

    ranks = {}
    for m in ("min", "max", "ordinal"):
        r = ctx.call(f"rank({m})", lambda: v.rank(method=m))
        got = [int(x) for x in np.asarray(r)]
        exp = expected[m]
        if got != exp:
            raise Violation(f"rank({m}) differs from the counting definition", got=got, want=exp, input=cs)
        if np.asarray(r).dtype.kind not in "iu":
            raise Violation(f"rank({m}) is not integer typed", dtype=str(np.asarray(r).dtype))
        ranks[m] = got
        arr = np.asarray(r)
        if n and arr.flags.writeable:
            # an answer belongs to the caller: editing it in place (r -= 1) must not show in later answers
            arr -= 1
            again = [int(x) for x in np.asarray(ctx.call(f"rank({m})", lambda: v.rank(method=m)))]
            twin = [int(x) for x in np.asarray(ctx.call(f"rank({m})", lambda: v.copy().rank(method=m)))]
            if again != exp or twin != exp:
                raise Violation(f"rank({m}) answers wrongly after an earlier answer was edited in place by the caller",
                                again=again, twin=twin, want=exp, input=cs)
    if n:
        order = sorted(range(n), key=lambda i: ranks["ordinal"][i])
        via_rank = [cs[i] for i in order]
        asc = build.cells(v.sort(dir=1))
        if not all(build.same_cell(a, b, numeric_loose=True) for a, b in zip(via_rank, asc)):
            raise Violation("ordinal rank is not consistent with sort", via_rank=via_rank, sort=asc)

    # ---- unique ----
    u = ctx.call("unique", lambda: v.unique())
    got = build.cells(u)
    exp, seen = [], set()
    for c in cs:
        k = model.ident(c)
        if k not in seen:
            seen.add(k)
            exp.append(c)
    if len(got) != len(exp) or not all(build.same_cell(a, b, numeric_loose=True) for a, b in zip(got, exp)):
        raise Violation("unique is not the distinct values in order of first occurrence", got=got, want=exp)
    if build.dtype_tag(u) != build.dtype_tag(v):
        raise Violation("unique changed dtype", got=build.dtype_tag(u), want=build.dtype_tag(v))

    if build.snap_array(v) != before:
        raise Violation("receiver changed by sort/rank/unique")
    if len(seen) < n:
        ctx.cls("with_ties")
    if any(isinstance(x, str) and len(x) >= 50 for x in vals):
        ctx.cls("long_strings")


def _is(v, prefix):
    return v.what.startswith(prefix)


KNOWN = {}
