# -*- coding: utf-8 -*-
"""C15 — ListOfDicts transformations match plain list-of-dict semantics."""

import functools

import dataiter as di
from attd import AttributeDict
from hypothesis import strategies as st

from .runner import Violation

ID = "C15"
RULE = ("plan = list of 0..10 dicts (keys a:int|None and b:str|None always present, c/d ragged, values from tiny pools with "
        "collisions and None, unique _id) + a chain of 1..4 ops (1..8 thorough) from filter/filter_out (predicate family or "
        "key=value), sort (1..2 keys x directions), unique, select, unselect, rename, modify, modify_if, fill_missing_keys, "
        "append, extend, insert (index in [-len-2, len+2]), +, *, reverse, head/tail (n in {0,1,len,len+2,None}), slicing. "
        "Oracle: the same op on a plain Python list of plain dicts; after every step identical _id sequence and dict contents, "
        "result is a ListOfDicts of AttributeDicts. Non-trivial: chain length ≥ 2, or a boundary argument (n = 0, index ≥ len "
        "or < 0, empty list). Distinct = plan hash.")
CASES = {"quick": 2000, "thorough": 24000}
FUZZ_RUNS = {"thorough": 20000}     # coverage-guided leg, 8 processes (vlib/fuzz.py)

# -1 / -2 and 0 / 2**61 - 1 have equal hashes in CPython: distinct keys that a hash-only comparison would merge
VA = [None, 0, 1, 2, 0, 1, 2, -1, -2, 2**61 - 1, 2.0, 1.0, -0.0]       # 2 == 2.0: equal sort keys of different types
VB = [None, "x", "y", "xy"]
VC = [None, 1, "x", True]


@st.composite
def _item(draw, idn):
    it = {"_id": idn, "a": draw(st.sampled_from(VA)), "b": draw(st.sampled_from(VB))}
    if draw(st.booleans()):
        it["c"] = draw(st.sampled_from(VC))
    if draw(st.integers(0, 2)) == 0:
        it["d"] = draw(st.sampled_from(VA))
    it["items"] = draw(st.sampled_from([0, 1, 3]))       # a key named like a dict method, and one with a dot: plain keys
    it["a.b"] = draw(st.sampled_from([0, 1]))
    if draw(st.integers(0, 3)) == 0:
        # same keys, another insertion order (plans keep the order: replays do not sort keys)
        it = {k: it[k] for k in draw(st.permutations(list(it)))}
    return it


def _pred():
    return st.one_of(
        st.tuples(st.just("eq"), st.sampled_from(["a", "b", "c"]), st.sampled_from(VA + VB)),
        st.tuples(st.just("isnone"), st.sampled_from(["a", "b", "c", "d"])),
        st.tuples(st.just("has"), st.sampled_from(["c", "d"])),
        st.tuples(st.just("truthy"), st.sampled_from(["a", "b", "c", "d"]), st.booleans()),
    ).map(list)


def _fn():
    return st.one_of(
        st.tuples(st.just("const"), st.sampled_from(VA + VB)),
        st.tuples(st.just("copy"), st.sampled_from(["a", "b", "c", "_id"])),
        st.tuples(st.just("inc"), st.just("_id")),
        st.tuples(st.just("bump"), st.just("a")),
    ).map(list)


@st.composite
def _op(draw, counter):
    name = draw(st.sampled_from([
        "filter", "filter_out", "filter_kv", "filter_out_kv", "sort", "sort", "unique", "select", "unselect", "rename",
        "modify", "modify_if", "fill", "fill", "append", "extend", "insert", "insert", "add", "mul", "reverse", "head", "tail",
        "tail", "slice", "keys", "keys", "group_by", "group_by"]))
    op = {"op": name}
    if name in ("filter", "filter_out"):
        op["pred"] = draw(_pred())
        if draw(st.integers(0, 9)) == 0:
            op["pred"] = ["stop_at", draw(st.integers(0, 4))]       # a predicate that raises StopIteration at its k-th call
    elif name in ("filter_kv", "filter_out_kv"):
        ks = draw(st.sampled_from([["a"], ["b"], ["a", "b"], ["b", "a"], ["items"], ["a.b"], ["items", "a"]]))
        op["pairs"] = [[k, draw(st.sampled_from({"a": VA, "b": VB}.get(k, [0, 1, 3])))] for k in ks]
    elif name == "sort":
        ks = draw(st.sampled_from([["a"], ["b"], ["a", "b"], ["b", "a"], ["_id"]]))
        op["keys"] = [[k, draw(st.sampled_from([1, -1]))] for k in ks]
    elif name == "group_by":
        # marks the receiver (and every list derived from it) as grouped: later steps must not care
        op["keys"] = [draw(st.sampled_from(["a", "b", "_id"]))]
    elif name == "unique":
        op["keys"] = draw(st.sampled_from([[], ["a"], ["b"], ["a", "b"], ["b", "a"]]))
    elif name in ("select", "unselect"):
        op["keys"] = draw(st.lists(st.sampled_from(["_id", "a", "b", "c", "d", "zz"]), unique=True, max_size=4))
        if name == "select" and "_id" not in op["keys"]:
            op["keys"].append("_id")
        if name == "unselect" and "_id" in op["keys"]:
            op["keys"].remove("_id")
    elif name == "rename":
        op["map"] = draw(st.sampled_from([[["a2", "a"]], [["a", "b"], ["b", "a"]], [["e", "c"]], [["n1", "a"], ["n2", "d"]],
                                           [["a", "a"]], []]))
    elif name in ("modify", "modify_if"):
        op["pairs"] = [[draw(st.sampled_from(["a", "b", "c", "e"])), draw(_fn())]]
        if draw(st.booleans()):
            # a second pair whose function reads the key the first pair assigns (pairs apply one after another)
            k2 = draw(st.sampled_from([k for k in ["a", "b", "c", "e"] if k != op["pairs"][0][0]]))
            op["pairs"].append([k2, draw(st.sampled_from([["copy", op["pairs"][0][0]], ["copy", "_id"], ["const", 7]]))])
        if name == "modify_if":
            op["pred"] = draw(_pred())
            if draw(st.integers(0, 3)) == 0:
                # the predicate reads the very key the function moves on
                op["pred"] = ["eq", "a", draw(st.sampled_from([0, 1, 2]))]
                op["pairs"][0] = ["a", ["bump", "a"]]
    elif name == "fill":
        op["pairs"] = draw(st.sampled_from([None, [["c", 0]], [["d", None], ["e", "x"]], [["a", 9]]]))
    elif name == "append":
        counter[0] += 1
        op["item"] = draw(_item(100 + counter[0]))
    elif name in ("extend", "add"):
        k = draw(st.integers(0, 2))
        op["items"] = []
        for _ in range(k):
            counter[0] += 1
            op["items"].append(draw(_item(100 + counter[0])))
        if name == "extend":
            op["as_list"] = draw(st.booleans())
            # list.extend takes any iterable: tuples, one-shot generators, map objects, AttributeDicts in a generator
            op["form"] = draw(st.sampled_from(["list", "lod", "tuple", "generator", "map", "generator_of_attrdicts", "reversed"]))
    elif name == "insert":
        counter[0] += 1
        op["item"] = draw(_item(100 + counter[0]))
        op["index"] = draw(st.integers(-13, 13))
    elif name == "mul":
        op["k"] = draw(st.integers(0, 3))
        op["r"] = draw(st.booleans())
    elif name in ("head", "tail"):
        op["n"] = draw(st.sampled_from(["none", "0", "1", "len", "len+2", "len-1"]))
    elif name == "slice":
        op["s"] = [draw(st.one_of(st.none(), st.integers(-12, 12))) for _ in range(2)] + \
                  [draw(st.sampled_from([None, None, 1, 2, -1, -2]))]
    return op


@st.composite
def _plan(draw, max_chain):
    n = draw(st.one_of(st.sampled_from([0, 1]), st.integers(0, 10)))
    items = [draw(_item(i)) for i in range(n)]
    counter = [0]
    chain = [draw(_op(counter)) for _ in range(draw(st.integers(1, max_chain)))]
    if n and draw(st.integers(0, 7)) == 0:
        # the same dicts at several positions (list * k is shallow), then an edit whose function moves the very
        # key its predicate reads: a plain loop visits the positions one after the other
        ints = [x["a"] for x in items if type(x["a"]) is int] or [0]
        chain = [{"op": "mul", "k": draw(st.sampled_from([2, 3])), "r": draw(st.booleans())}] + chain[:max_chain - 2] + [
            {"op": "modify_if", "pred": ["eq", "a", draw(st.sampled_from(ints))], "pairs": [["a", ["bump", "a"]]]}]
    if n >= 2 and draw(st.integers(0, 9)) == 0:
        # leading sort key whose values all print differently while some are equal (2 and 2.0, 0 and -0.0, 1 and 1.0):
        # equal is equal, the second key decides among them
        pool = list(draw(st.permutations([2, 2.0, 1, 1.0, 0, -0.0, -1, 5, None, 0.5])))
        for it, v in zip(items, pool):
            it["a"] = v
        items = items[:len(pool)]
        chain = [{"op": "sort", "keys": [["a", draw(st.sampled_from([1, -1]))], [draw(st.sampled_from(["b", "_id"])), draw(st.sampled_from([1, -1]))]]}] + chain[:max_chain - 1]
    plan = {"items": items, "chain": chain}
    if draw(st.integers(0, 3)) == 0:
        plan["peek_items"] = draw(st.sampled_from([1, 2, 3, 7]))      # dataiter.DEFAULT_PEEK_ITEMS: head()/tail() default
    return plan


def strategy(tier):
    return _plan(4 if tier == "quick" else 8)


def _boundary(op, n):
    if op["op"] in ("head", "tail") and op["n"] in ("0", "len+2"):
        return True
    if op["op"] == "insert" and (op["index"] >= n or op["index"] < 0):
        return True
    if op["op"] == "mul" and op["k"] == 0:
        return True
    return False


def nontrivial(plan):
    return len(plan["chain"]) >= 2 or len(plan["items"]) == 0 or any(_boundary(o, len(plan["items"])) for o in plan["chain"])


# -- predicate / function families (shared by both sides; they only read the item) ----------

def mk_pred(p):
    if p[0] == "eq":
        return lambda it: it.get(p[1]) == p[2] and type(it.get(p[1])) is type(p[2])
    if p[0] == "isnone":
        return lambda it: it.get(p[1]) is None
    if p[0] == "truthy":
        # the predicate hands back the value itself (2, "x", "", None, a list ...): its truth value decides
        return lambda it: ([it.get(p[1])] if p[2] and it.get(p[1]) is not None else it.get(p[1]))
    return lambda it: p[1] in it


def mk_fn(f):
    if f[0] == "const":
        return lambda it: f[1]
    if f[0] == "copy":
        return lambda it: it.get(f[1])
    if f[0] == "bump":
        # reads the key it is usually assigned to: applying it twice is not applying it once
        return lambda it: (it.get(f[1]) if type(it.get(f[1])) is int else 0) + 1
    return lambda it: it["_id"] + 1000


def _n(spec, length):
    return {"none": None, "0": 0, "1": 1, "len": length, "len+2": length + 2, "len-1": max(length - 1, 0)}[spec]


# -- the reference: plain list of plain dicts ----------------------------------------------

_PEEK = [3]


def ref_apply(ref, op):
    name = op["op"]
    if name == "filter":
        p = mk_pred(op["pred"]); return [x for x in ref if p(x)]
    if name == "filter_out":
        p = mk_pred(op["pred"]); return [x for x in ref if not p(x)]
    if name in ("filter_kv", "filter_out_kv"):
        hit = lambda x: all(x[k] == v for k, v in op["pairs"])
        return [x for x in ref if hit(x) == (name == "filter_kv")]
    if name == "sort":
        out = list(ref)
        for k, d in reversed(op["keys"]):
            def cmp(x, y, k=k, d=d):
                a, b = x[k], y[k]
                if a is None or b is None:
                    return (a is None) - (b is None)       # None last in both directions
                return ((a > b) - (a < b)) * d
            out = sorted(out, key=functools.cmp_to_key(cmp))
        return out
    if name == "unique":
        if not ref:
            return []
        keys = op["keys"]
        if not keys:
            keys = set(ref[0])
            for x in ref:
                keys &= set(x)
            keys = sorted(keys)
        seen, out = [], []
        for x in ref:
            ident = tuple((type(x[k]).__name__, x[k]) for k in keys)
            if ident not in seen:
                seen.append(ident); out.append(x)
        return out
    if name == "select":
        return [{k: x[k] for k in op["keys"] if k in x} for x in ref]
    if name == "unselect":
        for x in ref:
            for k in op["keys"]:
                x.pop(k, None)
        return list(ref)
    if name == "rename":
        m = {o: n for n, o in op["map"]}
        return [dict((m.get(k, k), v) for k, v in x.items()) for x in ref]
    if name == "modify":
        for x in ref:
            for k, f in op["pairs"]:
                x[k] = mk_fn(f)(x)
        return list(ref)
    if name == "modify_if":
        p = mk_pred(op["pred"])
        for x in ref:
            if p(x):
                for k, f in op["pairs"]:
                    x[k] = mk_fn(f)(x)
        return list(ref)
    if name == "fill":
        pairs = op["pairs"]
        if pairs is None:
            allk = []
            for x in ref:
                for k in x:
                    if k not in allk:
                        allk.append(k)
            pairs = [[k, None] for k in allk]
        for x in ref:
            for k, v in pairs:
                if k not in x:
                    x[k] = v
        return list(ref)
    if name == "append":
        return ref + [dict(op["item"])]
    if name in ("extend", "add"):
        return ref + [dict(x) for x in op["items"]]
    if name == "insert":
        out = list(ref); out.insert(op["index"], dict(op["item"])); return out
    if name == "mul":
        return ref * op["k"]
    if name == "reverse":
        return list(reversed(ref))
    if name == "head":
        n = _n(op["n"], len(ref)); n = _PEEK[0] if n is None else n
        return ref[:min(n, len(ref))]
    if name == "tail":
        n = _n(op["n"], len(ref)); n = _PEEK[0] if n is None else n
        k = min(n, len(ref))
        return ref[len(ref) - k:]
    if name == "slice":
        return ref[slice(*op["s"])]
    if name in ("keys", "group_by"):
        return list(ref)                        # a query / a mark on the list: the items are unchanged
    raise AssertionError(name)


def real_apply(real, op):
    name = op["op"]
    if name in ("filter", "filter_out"):
        return getattr(real, name)(mk_pred(op["pred"]))
    if name in ("filter_kv", "filter_out_kv"):
        return getattr(real, name[:-3])(**{k: v for k, v in op["pairs"]})
    if name == "sort":
        return real.sort(**{k: d for k, d in op["keys"]})
    if name == "unique":
        return real.unique(*op["keys"])
    if name == "select":
        return real.select(*op["keys"])
    if name == "unselect":
        return real.unselect(*op["keys"])
    if name == "rename":
        return real.rename(**{n: o for n, o in op["map"]})
    if name == "modify":
        return real.modify(**{k: mk_fn(f) for k, f in op["pairs"]})
    if name == "modify_if":
        return real.modify_if(mk_pred(op["pred"]), **{k: mk_fn(f) for k, f in op["pairs"]})
    if name == "fill":
        return real.fill_missing_keys(**({} if op["pairs"] is None else {k: v for k, v in op["pairs"]}))
    if name == "append":
        return real.append(dict(op["item"]))
    if name == "extend":
        other = [dict(x) for x in op["items"]]
        form = op.get("form", "list" if op["as_list"] else "lod")
        if form == "lod":
            arg = di.ListOfDicts(other)
        elif form == "tuple":
            arg = tuple(other)
        elif form == "generator":
            arg = (x for x in other)
        elif form == "map":
            arg = map(dict, other)
        elif form == "generator_of_attrdicts":
            arg = (x for x in di.ListOfDicts(other))
        elif form == "reversed":
            arg = reversed(other[::-1])
        else:
            arg = other
        return real.extend(arg)
    if name == "add":
        return real + di.ListOfDicts([dict(x) for x in op["items"]])
    if name == "insert":
        return real.insert(op["index"], dict(op["item"]))
    if name == "mul":
        return (op["k"] * real) if op["r"] else (real * op["k"])
    if name == "reverse":
        return real.reverse()
    if name in ("head", "tail"):
        return getattr(real, name)(_n(op["n"], len(real)))
    if name == "slice":
        return real[slice(*op["s"])]
    if name == "group_by":
        g = real.group_by(*op["keys"])
        if g is not real:
            raise Violation("group_by is documented to mark and return the receiver")
        return real
    if name == "keys":
        got = list(real.keys())
        want = []
        for x in list.__iter__(real):
            for k in x:
                if k not in want:
                    want.append(k)
        if got != want:
            raise Violation("keys() is not the first-seen union of the items' keys", got=got, want=want)
        return real
    raise AssertionError(name)


def applicable(ref, op):
    """Implicit preconditions every real caller respects: named keys exist, sort values are comparable."""
    name = op["op"]
    if name in ("filter_kv", "filter_out_kv"):
        return all(k in x for x in ref for k, _ in op["pairs"])
    if name == "sort":
        for k, _ in op["keys"]:
            if not all(k in x for x in ref):
                return False
            types = {type(x[k]) for x in ref if x[k] is not None}
            if not (types <= {int, float} or types <= {str}):
                return False
        return True
    if name == "unique":
        if op["keys"]:
            return all(k in x for x in ref for k in op["keys"])
        if ref:
            common = set(ref[0])
            for x in ref:
                common &= set(x)
            return bool(common)
    return True


def ambiguous(ref, op):
    """unique over key values that are equal across types (True == 1 == 1.0): plain Python hashing makes them one
    key, a type-aware reading makes them several; the statement does not choose, so such steps are not judged."""
    if op["op"] != "unique" or not ref:
        return False
    keys = op["keys"]
    if not keys:
        keys = set(ref[0])
        for x in ref:
            keys &= set(x)
        keys = sorted(keys)
    plain = {}
    for x in ref:
        try:
            plain.setdefault(tuple(x[k] for k in keys), set()).add(tuple(type(x[k]).__name__ for k in keys))
        except TypeError:
            return False
    return any(len(v) > 1 for v in plain.values())


def _typed(d):
    return {k: (type(v).__name__, v) for k, v in d.items()}


def compare(step, op, real, ref):
    if not isinstance(real, di.ListOfDicts):
        raise Violation("result is not a ListOfDicts", step=step, op=op, type=str(type(real)))
    got_ids = [x.get("_id") for x in real]
    want_ids = [x.get("_id") for x in ref]
    if got_ids != want_ids:
        raise Violation("item sequence differs from the plain-list reference", step=step, op=op, got=got_ids, want=want_ids)
    for j, (a, b) in enumerate(zip(real, ref)):
        if not isinstance(a, AttributeDict):
            raise Violation("item is not an AttributeDict", step=step, op=op, index=j, type=str(type(a)))
        if _typed(dict(a)) != _typed(b):
            raise Violation("item contents differ from the plain-dict reference", step=step, op=op, index=j,
                            got=dict(a), want=b)
        if list(a.keys()) != list(b.keys()) and op["op"] in ("select", "rename"):
            raise Violation("key order differs from the requested / original order", step=step, op=op, got=list(a), want=list(b))
        for k in a:
            if k.isidentifier() and not hasattr(dict, k) and getattr(a, k) is not a[k] and getattr(a, k) != a[k]:
                raise Violation("attribute access does not reach the key", key=k)


def check(plan, ctx):
    import contextlib, io
    _PEEK[0] = plan.get("peek_items", 3)
    di.DEFAULT_PEEK_ITEMS = _PEEK[0]
    ref = [dict(x) for x in plan["items"]]
    real = di.ListOfDicts([dict(x) for x in plan["items"]])
    compare(-1, {"op": "init"}, real, ref)
    aliased = False
    for step, op in enumerate(plan["chain"]):
        if aliased and op["op"] in ("modify", "modify_if") and any(f[0] == "bump" for _, f in op["pairs"]):
            # the same dict at several positions: items are visited one after the other, as in a plain loop
            ctx.cls("non_idempotent_edit_of_items_aliased_by_mul")
        if op["op"] in ("filter", "filter_out") and op["pred"][0] == "stop_at":
            # a predicate that fails half-way (here with StopIteration, as next() on an exhausted iterator does): a plain
            # loop lets the failure out; what it must not do is hand back the items seen so far as if that were all
            k, calls = op["pred"][1], [0]
            def failing(it):
                calls[0] += 1
                if calls[0] - 1 == k:
                    raise StopIteration
                return True
            try:
                res, raised = getattr(real, op["op"])(failing), False
            except Exception:
                raised = True
            if k < len(ref) and not raised:
                raise Violation(f"{op['op']} swallowed the exception of its predicate and returned a partial result",
                                step=step, failed_at=k, returned=len(res), items=len(ref))
            ctx.cls("predicate_raises_half_way")
            if not raised:
                real, ref = res, (list(ref) if op["op"] == "filter" else [])
                compare(step, op, real, ref)
            continue
        if not applicable(ref, op):
            ctx.excl("step outside the documented domain (absent key / incomparable sort values)")
            continue
        if ambiguous(ref, op):
            ctx.excl("unique over key values equal across types (True == 1): not fixed by the statement")
            continue
        if _boundary(op, len(ref)):
            ctx.cls("boundary_" + op["op"])
        ctx.cls("op_" + op["op"])
        ref = ref_apply(ref, op)
        buf = io.StringIO()
        with contextlib.redirect_stdout(buf):
            real = ctx.call(op["op"], real_apply, real, op)
        if buf.getvalue():
            raise Violation("a warning was printed although only the newest list was used", text=buf.getvalue())
        compare(step, op, real, ref)
        if op["op"] == "mul" and op["k"] >= 2:
            aliased = True
    if not ref:
        ctx.cls("ends_empty")


KNOWN = {}
