# -*- coding: utf-8 -*-
"""C09 — combining and reshaping columns preserves every untouched value."""

import numpy as np
import dataiter as di
from hypothesis import strategies as st

from . import build, gen, model
from .runner import Violation

ID = "C09"
RULE = ("plan = op + operands. rbind: 2..4 frames (0..8 rows quick / 0..20 thorough) over a 4-name pool with per-name promotable "
        "kind families (int/float, date/datetime, bool, str, object), overlapping or disjoint column sets, 0-row and 0-column "
        "operands; select/unselect (subsets in arbitrary order, absent names for unselect); rename (swaps, rotations, fresh "
        "names); colnames assignment (fresh names, permutations of existing names, partial overlaps); cbind (duplicate names, "
        "1-row operands); update (overlapping columns, 1-row operands); modify (scalar / vector / callable, new and existing "
        "names). Oracle: list-of-columns reference model; every surviving column cell-wise bit-identical to its source, names "
        "and order as specified, row order unchanged. Non-trivial: rbind with a column absent from a non-empty operand, or a "
        "rename/colnames map that is a non-identity permutation, or a cbind/update name collision, or modify replacing an "
        "existing column. Distinct = plan hash.")
CASES = {"quick": 1500, "thorough": 16000}

FAMILIES = {"num": ["i", "f"], "time": ["d", "t"], "bool": ["b"], "str": ["s"], "obj": ["o"],
            # less common dtypes: bytes, timedelta, narrow integers, float32, legacy fixed-width strings, object bools
            "bytes": ["y"], "delta": ["td"], "small": ["i8", "u8", "i"], "f32": ["f32", "f"], "ustr": ["u", "s"], "obool": ["ob"],
            "unsigned": ["u64", "i", "u64"]}           # uint64 next to int64: NumPy's common type is float64
POOL = ["a", "b", "c", "d"]
KINDS = ["f", "i", "b", "s", "u", "d", "t", "o", "td"]
COMPAT = ["µg", "\u212bngstr\u00f6m", "\u2126", "ﬁeld", "ａ", "ｘ１", "ǆ", "ſ"]       # MICRO SIGN, ANGSTROM SIGN, OHM SIGN, ligature, full-width
NESTED = ["a", "ab", "abc", "b", "bc", "rid", "_rid", "id", "_", ""]


@st.composite
def _rbind(draw, max_rows):
    fam = {n: draw(st.sampled_from(sorted(FAMILIES))) for n in POOL}
    k = draw(st.integers(2, 4))
    frames = []
    for _ in range(k):
        n = draw(gen.nrows(max_rows))
        names = [x for x in POOL if draw(st.booleans())]
        names = draw(st.permutations(names))
        if draw(st.integers(0, 9)) == 0:
            frames.append({"n": 0, "cols": [], "norid": True})
            continue
        cols = []
        for nm in names:
            kind = draw(st.sampled_from(FAMILIES[fam[nm]]))
            cols.append({"name": nm, "kind": kind, "vals": draw(gen.values(kind, n))})
        frames.append({"n": n, "cols": cols})
    if draw(st.integers(0, 5)) == 0:
        # every frame has the same columns with the same dtypes, listed in another order (a "same layout" shortcut that
        # stacks by position would mix the columns up); values differ per column so that a mix-up shows
        names = [x for x in POOL if draw(st.booleans())] or ["a", "b"]
        kinds = {nm: draw(st.sampled_from(["i", "f", "i", "s", "b"])) for nm in names}
        frames = []
        for _ in range(k):
            n = draw(gen.nrows(max_rows))
            order = draw(st.permutations(names))
            frames.append({"n": n, "cols": [{"name": nm, "kind": kinds[nm], "vals": draw(gen.values(kinds[nm], n, mode="pool", na="none"))} for nm in order]})
    return {"op": "rbind", "frames": frames}


@st.composite
def _single(draw, max_rows):
    fp = draw(gen.frame_plan(kinds=KINDS, max_rows=max_rows, max_cols=4, min_cols=0, prefix="c"))
    if draw(st.integers(0, 2)) == 0:
        # column names contained in one another (and in the row-id column's name)
        nested = draw(st.permutations(NESTED))
        for c, nm in zip(fp["cols"], nested):
            c["name"] = nm
    names = [c["name"] for c in fp["cols"]] + ["_rid_"]
    op = draw(st.sampled_from(["select", "unselect", "rename", "colnames", "colnames", "modify"]))
    draw(gen.decorate(fp))
    plan = {"op": op, "frame": fp}
    if op == "select":
        plan["names"] = list(draw(st.permutations(names)))[:draw(st.integers(0, len(names)))]
    elif op == "unselect":
        sub = list(draw(st.permutations(names)))[:draw(st.integers(0, len(names)))]
        plan["names"] = sub + (["zz"] if draw(st.booleans()) else [])
        if draw(st.integers(0, 2)) == 0:
            plan["names"] = [draw(st.sampled_from(names))]          # exactly one name, as in everyday use
    elif op == "rename":
        k = draw(st.integers(0, len(names)))
        olds = list(draw(st.permutations(names)))[:k]
        how = draw(st.sampled_from(["fresh", "permute", "mixed"]))
        if how == "fresh":
            news = [f"n{j}" for j in range(k)]
            if draw(st.integers(0, 2)) == 0:
                news = list(draw(st.permutations(COMPAT)))[:k] + news[len(COMPAT):]
        elif how == "permute":
            news = list(draw(st.permutations(olds)))
        else:
            news = list(draw(st.permutations(olds)))
            news = [x if draw(st.booleans()) else f"n{j}" for j, x in enumerate(news)]
            # a new name must not collide with a column that keeps its name
            keep = set(names) - set(olds)
            news = [x if x not in keep else f"m{j}" for j, x in enumerate(news)]
            seen, fixed = set(), []
            for j, x in enumerate(news):
                fixed.append(x if x not in seen else f"q{j}")
                seen.add(fixed[-1])
            news = fixed
        plan["map"] = [[n_, o_] for n_, o_ in zip(news, olds)]
    elif op == "colnames":
        how = draw(st.sampled_from(["fresh", "permute", "partial"]))
        if how == "fresh":
            plan["names"] = [f"n{j}" for j in range(len(names))]
            if draw(st.booleans()):
                # names that a Unicode normalisation would rewrite (compatibility characters): kept as given
                plan["names"] = list(draw(st.permutations(COMPAT)))[:len(names)] + plan["names"][len(COMPAT):]
        elif how == "permute":
            plan["names"] = list(draw(st.permutations(names)))
        else:
            mixed = list(draw(st.permutations(names)))
            mixed = [x if draw(st.booleans()) else f"n{j}" for j, x in enumerate(mixed)]
            plan["names"] = mixed
        plan["form"] = draw(st.sampled_from(["list", "list", "tuple", "generator", "map", "number"]))
    elif op == "modify":
        n = fp["n"]
        pairs = []
        for j in range(draw(st.integers(1, 2))):
            target = draw(st.sampled_from([c["name"] for c in fp["cols"]] + [f"new{j}"]))
            if any(t == target for t, _ in pairs):
                continue
            how = draw(st.sampled_from(["scalar", "vector", "callable_copy", "callable_rid"]))
            if how == "scalar":
                kind = draw(st.sampled_from(["i", "f", "s", "b"]))
                v = draw(gen.value(kind, "tight"))
                if n == 0:
                    how = "vector"
                    pairs.append([target, {"how": "vector", "kind": kind, "vals": []}])
                    continue
                pairs.append([target, {"how": "scalar", "kind": kind, "val": v}])
            elif how == "vector":
                kind = draw(st.sampled_from(KINDS))
                pairs.append([target, {"how": "vector", "kind": kind, "vals": draw(gen.values(kind, n))}])
            elif how == "callable_copy":
                pairs.append([target, {"how": "callable_copy", "src": draw(st.sampled_from(names))}])
            else:
                pairs.append([target, {"how": "callable_rid"}])
        if len(pairs) == 1 and pairs[0][0] in names and draw(st.booleans()):
            # a second pair whose function reads the column the first pair replaces: it sees the receiver's column
            pairs.append([draw(st.sampled_from(["new9"] + [x for x in names if x != pairs[0][0] and x != "_rid_"][:1])),
                          {"how": "callable_copy", "src": pairs[0][0]}])
        plan["pairs"] = pairs
        if fp.get("via") == "marked_by_group_by" and not all(s["how"].startswith("callable") for _, s in pairs):
            del fp["via"]                     # on a marked frame modify takes functions only (documented)
        cand = [c["name"] for c in fp["cols"] if c["kind"] in ("i", "s", "b", "f", "d", "i8", "u8")]
        if n and cand and all(s["how"].startswith("callable") for _, s in pairs) and draw(st.integers(0, 2)) == 0:
            # the same edit group-wise: every column the call does not name stays as it is, rows included
            plan["grouped_by"] = draw(st.sampled_from(cand))
    return plan


@st.composite
def _multi(draw, max_rows):
    n = draw(gen.nrows(max_rows))
    op = draw(st.sampled_from(["cbind", "update"]))
    base = draw(gen.frame_plan(kinds=KINDS, max_rows=max_rows, max_cols=3, min_cols=1, prefix="c"))
    n = base["n"]
    others = []
    for _ in range(draw(st.integers(1, 2)) if op == "cbind" else 1):
        k = draw(st.integers(1, 3))
        on = n if (n == 0 or draw(st.integers(0, 3))) else 1
        if n >= 1 and draw(st.integers(0, 7)) == 0:
            on = n + draw(st.integers(1, 3)) if (n != 1 or draw(st.booleans())) else draw(st.integers(2, 4))
        cols = []
        used = set()
        for j in range(k):
            nm = draw(st.sampled_from(["c0", "c1", "c2", "e0", "e1", "e2"]))
            if nm in used:
                continue
            used.add(nm)
            kind = draw(st.sampled_from(KINDS))
            cols.append({"name": nm, "kind": kind, "vals": draw(gen.values(kind, on))})
        if on == 1 and n >= 2 and draw(st.integers(0, 2)) == 0:
            # a one-row operand whose object cell is itself a sequence (as regex.split / findall leave them): broadcast
            # means every row gets that list, also when its length happens to equal the receiver's row count
            m = n if draw(st.booleans()) else draw(st.integers(0, 3))
            cols.append({"name": "e9", "kind": "ol", "vals": [[["red", "green", "blue", "x", "y"][i % 5] for i in range(m)]]})
        others.append({"n": on, "cols": cols, "norid": True})
    if op == "update" and n >= 2 and draw(st.integers(0, 5)) == 0:
        # every column of the receiver (it carries no row id here) is replaced by a one-row frame
        base = dict(base, norid=True)
        others = [{"n": 1, "norid": True, "cols": [{"name": c["name"], "kind": c["kind"],
                                                     "vals": draw(gen.values(c["kind"], 1))} for c in base["cols"]]}]
    return {"op": op, "frame": base, "others": others}


def strategy(tier):
    m = 8 if tier == "quick" else 20
    return st.one_of(_rbind(m), _rbind(m), _single(m), _single(m), _single(m), _multi(m))


def nontrivial(plan):
    op = plan["op"]
    if op == "rbind":
        allnames = {c["name"] for f in plan["frames"] for c in f["cols"]}
        return any(f["n"] > 0 and (allnames - {c["name"] for c in f["cols"]}) for f in plan["frames"])
    if op == "rename":
        return any(n_ != o_ for n_, o_ in plan["map"]) and {n_ for n_, _ in plan["map"]} == {o_ for _, o_ in plan["map"]}
    if op == "colnames":
        names = [c["name"] for c in plan["frame"]["cols"]] + ["_rid_"]
        return plan["names"] != names and bool(set(plan["names"]) & set(names))
    if op in ("cbind", "update"):
        base = {c["name"] for c in plan["frame"]["cols"]}
        return any(c["name"] in base for o in plan["others"] for c in o["cols"])
    if op == "modify":
        base = {c["name"] for c in plan["frame"]["cols"]}
        return any(t in base for t, _ in plan["pairs"])
    if op in ("select", "unselect"):
        return len(plan["names"]) >= 2
    return False


def _mk(fp):
    return build.frame(fp, rid=None if fp.get("norid") else "_rid_")


def _promoted(got, want):
    if isinstance(want, bool) or isinstance(got, bool):
        return build.same_cell(got, want)
    if isinstance(want, int) and isinstance(got, float):
        return float(want) == got
    return build.same_cell(got, want)


def _expect_columns(what, out, names, sources, exact=True):
    """sources: list of (dtype tag, cells) per expected column, aligned with names."""
    got = list(dict.keys(out))
    if got != list(names):
        raise Violation(f"{what}: column names/order differ", got=got, want=list(names))
    for nm, (tag, want) in zip(names, sources):
        col = out[nm]
        if np.asarray(col).ndim != 1:
            raise Violation(f"{what}: column not one-dimensional", column=nm)
        oc = build.cells(col)
        if len(oc) != len(want):
            raise Violation(f"{what}: column length differs", column=nm, got=len(oc), want=len(want))
        if exact and build.dtype_tag(col) != tag:
            raise Violation(f"{what}: dtype changed", column=nm, got=build.dtype_tag(col), want=tag)
        for j, (a, b) in enumerate(zip(oc, want)):
            ok = build.same_cell(a, b) if exact else _promoted(a, b)
            if not ok:
                raise Violation(f"{what}: cell differs from its source", column=nm, row=j, got=a, want=b)


def check(plan, ctx):
    op = plan["op"]
    ctx.cls("op_" + op)
    if op == "rbind":
        ctx.cls(f"rbind_{len(plan['frames'])}_frames", *("rbind_kind_" + c["kind"] for f in plan["frames"] for c in f["cols"]))
        allnames = {c["name"] for f in plan["frames"] for c in f["cols"]}
        if any(f["n"] and allnames - {c["name"] for c in f["cols"]} for f in plan["frames"]):
            ctx.cls("rbind_nonempty_input_lacks_a_column")
        return _check_rbind(plan, ctx)
    if "frame" in plan:
        nm = [c["name"] for c in plan["frame"]["cols"]]
        if any(a != b and a in b for a in nm + ["_rid_"] for b in nm + ["_rid_"]):
            ctx.cls("column_names_contained_in_one_another")
        if op == "unselect" and len(plan["names"]) == 1:
            ctx.cls("unselect_single_name")
    data = _mk(plan["frame"])
    src = build.table(data)
    before = build.snap_frame(data)
    names = list(src)
    n = plan["frame"]["n"]

    if op == "select":
        out = ctx.call("select", data.select, *plan["names"])
        _expect_columns("select", out, plan["names"], [src[x] for x in plan["names"]])
    elif op == "unselect":
        out = ctx.call("unselect", data.unselect, *plan["names"])
        keep = [x for x in names if x not in plan["names"]]
        _expect_columns("unselect", out, keep, [src[x] for x in keep])
    elif op == "rename":
        m = {o_: n_ for n_, o_ in plan["map"]}
        out = ctx.call("rename", lambda: data.rename(**{n_: o_ for n_, o_ in plan["map"]}))
        _expect_columns("rename", out, [m.get(x, x) for x in names], [src[x] for x in names])
    elif op == "colnames":
        work = data.deepcopy()
        form = plan.get("form", "list")
        if form in ("generator", "map", "number"):
            # a right-hand side the setter cannot take (no len(), not iterable): whatever it raises, the frame stays as it is
            wb = build.snap_frame(work)
            rhs = {"generator": (x for x in plan["names"]), "map": map(str, plan["names"]), "number": 5}[form]
            try:
                work.colnames = rhs
                accepted = True
            except Exception:
                accepted = False
            if not accepted:
                if build.snap_frame(work) != wb:
                    raise Violation("a rejected colnames assignment changed the frame", form=form,
                                    names_after=list(dict.keys(work)), names_before=list(wb[0]))
                ctx.cls("colnames_assignment_rejected_frame_intact")
                return
            ctx.cls("colnames_from_" + form + "_accepted")
            work = data.deepcopy()
        def assign():
            work.colnames = list(plan["names"]) if form != "tuple" else tuple(plan["names"])
        ctx.call("colnames assignment", assign)
        _expect_columns("colnames assignment", work, plan["names"], [src[x] for x in names])
        for nm in plan["names"]:
            if nm.isidentifier() and getattr(work, nm) is not work[nm]:
                raise Violation("colnames assignment: attribute access does not reach the renamed column", name=nm)
        out = work
    elif op in ("cbind", "update"):
        others = [_mk(o) for o in plan["others"]]
        osrc = [build.table(o) for o in others]
        obefore = [build.snap_frame(o) for o in others]
        seen_names = set(names)
        mismatch = False
        for o in plan["others"]:
            new_names = [c["name"] for c in o["cols"] if (c["name"] not in seen_names or op == "update")]
            seen_names |= {c["name"] for c in o["cols"]}
            if o["n"] not in (n, 1) and new_names:          # only a frame that contributes a column is examined
                mismatch = True
        if mismatch:
            # "any other length mismatch is rejected": the call must raise and leave every operand untouched
            try:
                out = data.cbind(*others) if op == "cbind" else data.update(others[0])
            except Exception:
                if build.snap_frame(data) != before or [build.snap_frame(o) for o in others] != obefore:
                    raise Violation(f"{op} rejected operands of mismatching length but changed one of them")
                ctx.cls("mismatching_length_rejected")
                return
            lens = {k: len(v) for k, v in dict.items(out)}
            raise Violation(f"{op} accepted an operand whose row count matches neither the receiver's nor 1",
                            receiver_rows=n, operand_rows=[o["n"] for o in plan["others"]], result_lengths=lens)
        if op == "cbind":
            out = ctx.call("cbind", data.cbind, *others)
        else:
            out = ctx.call("update", data.update, others[0])
        def expand(t, on):
            tag, cs = t
            return (tag, cs * n if (on == 1 and n != 1) else cs)
        if op == "cbind":
            exp_names, exp_src = list(names), [src[x] for x in names]
            for o, os_ in zip(plan["others"], osrc):
                for cn in os_:
                    if cn not in exp_names:
                        exp_names.append(cn)
                        exp_src.append(expand(os_[cn], o["n"]))
            _expect_columns("cbind", out, exp_names, exp_src)
        else:
            os_ = osrc[0]
            # the position of a replaced column is not asserted: compare as name -> column
            got_names = list(dict.keys(out))
            want_set = [x for x in names if x not in os_] + list(os_)
            if sorted(got_names) != sorted(want_set) or len(got_names) != len(set(got_names)):
                raise Violation("update: column set differs", got=got_names, want=want_set)
            untouched = [x for x in names if x not in os_]
            if [x for x in got_names if x in untouched] != untouched:
                raise Violation("update: relative order of untouched columns changed", got=got_names)
            srcs = [src[x] if x in untouched else expand(os_[x], plan["others"][0]["n"]) for x in got_names]
            _expect_columns("update", out, got_names, srcs)
        for o, b in zip(others, obefore):
            if build.snap_frame(o) != b:
                raise Violation(f"{op} changed an argument")
    elif op == "modify":
        kw, exp = {}, {}
        for target, spec in plan["pairs"]:
            if spec["how"] == "scalar":
                kw[target] = spec["val"]
                exp[target] = (None, [build.pcell(spec["kind"], spec["val"])] * n)
            elif spec["how"] == "vector":
                v = build.vec(spec["kind"], spec["vals"])
                kw[target] = v
                exp[target] = (build.dtype_tag(v), [build.pcell(spec["kind"], x) for x in spec["vals"]])
            elif spec["how"] == "callable_copy":
                s = spec["src"]
                kw[target] = (lambda s: (lambda x: x[s]))(s)
                exp[target] = src[s]
            else:
                kw[target] = lambda x: x["_rid_"] * 2
                exp[target] = ("int64", [2 * r for r in range(n)])
        if plan.get("grouped_by"):
            g0 = tuple(data._group_colnames)
            try:
                out = ctx.call("grouped modify", lambda: data.group_by(plan["grouped_by"]).modify(**kw))
            finally:
                data._group_colnames = g0             # group_by marks its receiver by design: taken back
            ctx.cls("modify_group_wise")
        else:
            out = ctx.call("modify", lambda: data.modify(**kw))
        exp_names = list(names) + [t for t in exp if t not in names]
        got = list(dict.keys(out))
        if got != exp_names:
            raise Violation("modify: column names/order differ", got=got, want=exp_names)
        for nm in exp_names:
            tag, want = exp[nm] if nm in exp else src[nm]
            oc = build.cells(out[nm])
            if tag is not None and build.dtype_tag(out[nm]) != tag:
                raise Violation("modify: dtype differs", column=nm, got=build.dtype_tag(out[nm]), want=tag)
            if len(oc) != len(want) or not all(build.same_cell(a, b) for a, b in zip(oc, want)):
                raise Violation("modify: column differs from its source", column=nm, got=oc, want=want)
    else:
        raise AssertionError(op)

    if op != "colnames" and build.snap_frame(data) != before:
        raise Violation(f"{op} changed its receiver")
    if op not in ("rename", "colnames") and "_rid_" in out and [int(x) for x in np.asarray(out["_rid_"])] != list(range(n)):
        raise Violation(f"{op}: row order changed")


def _check_rbind(plan, ctx):
    frames = [_mk(f) for f in plan["frames"]]
    srcs = [build.table(f) for f in frames]
    befores = [build.snap_frame(f) for f in frames]
    out = ctx.call("rbind", frames[0].rbind, *frames[1:])
    names = []
    for s in srcs:
        for cn in s:
            if cn not in names:
                names.append(cn)
    got = list(dict.keys(out))
    if got != names:
        raise Violation("rbind: columns are not the first-seen union", got=got, want=names)
    total = sum(f["n"] for f in plan["frames"])
    for cn in names:
        col = out[cn]
        if np.asarray(col).ndim != 1:
            raise Violation("rbind: column not one-dimensional", column=cn)
        oc = build.cells(col)
        if len(oc) != total:
            raise Violation("rbind: row count is not the sum of the inputs", column=cn, got=len(oc), want=total)
        pos = 0
        for f, s in zip(plan["frames"], srcs):
            block = oc[pos:pos + f["n"]]
            if cn in s:
                want = s[cn][1]
                if not all(_promoted(a, b) for a, b in zip(block, want)):
                    raise Violation("rbind: block differs from its input", column=cn, got=block, want=want)
            elif any(c is not None for c in block):
                raise Violation("rbind: input lacking the column contributes non-missing cells", column=cn, got=block)
            pos += f["n"]
        if all(cn in s for s in srcs) and len({s[cn][0] for s in srcs}) == 1 and build.dtype_tag(col) != srcs[0][cn][0]:
            raise Violation("rbind: dtype changed although all inputs agree", column=cn, got=build.dtype_tag(col))
    for f, b in zip(frames, befores):
        if build.snap_frame(f) != b:
            raise Violation("rbind changed an operand")
    if total == 0:
        ctx.cls("rbind_empty_result")
    if any(f["n"] == 0 for f in plan["frames"]):
        ctx.cls("rbind_with_empty_operand")


KNOWN = {}
