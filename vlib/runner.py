# -*- coding: utf-8 -*-
"""
Runner shared by all checks: hermetic environment, seeding, sharding, replays,
known findings, evidence, VIOLATION / KNOWN-FINDING lines and exit codes.

A property module (vlib/cNN_*.py) provides

    ID, RULE                       property id, text of the generation / non-triviality rule
    strategy(tier)                 Hypothesis strategy producing *plans* (plain data)
    check(plan, ctx)               runs the real code and the oracle, raises Violation
    nontrivial(plan) -> bool       the stated non-triviality rule
    CASES = {"quick": n, "thorough": n_per_shard}
    KNOWN = {name: matcher(plan, violation) -> bool}     (optional)
    NUMBA = True                   (optional) the module needs Numba switched on
    ASSUMPTIONS = [...]            (optional)

Hypothesis only ever produces plans; replay bypasses Hypothesis entirely.
"""

import argparse
import collections
import hashlib
import importlib
import json
import math
import os
import shutil
import subprocess
import sys
import tempfile
import time
import traceback

ROOT = os.path.dirname(os.path.dirname(os.path.abspath(__file__)))

MODULES = {
    "C01": "c01_rect", "C02": "c02_subset", "C03": "c03_sort", "C04": "c04_group",
    "C05": "c05_join", "C06": "c06_alias", "C07": "c07_stats", "C08": "c08_numba",
    "C09": "c09_combine", "C10": "c10_construct", "C11": "c11_vecsort", "C12": "c12_files",
    "C13": "c13_convert", "C14": "c14_readers", "C15": "c15_lod", "C16": "c16_lodjoin",
    "C17": "c17_obsolete", "C18": "c18_geojson", "C19": "c19_dtre", "C20": "c20_render",
}

DEFAULT_TIME = {"quick": 150, "thorough": 1500}
NSHARDS = {"quick": 4, "thorough": 16}      # quick: four independent seeds side by side (same wall clock on this 16-core box)


class Violation(Exception):
    """The property does not hold for this plan."""
    def __init__(self, what, **detail):
        super().__init__(what)
        self.what = what
        self.detail = detail

    def text(self):
        d = ", ".join(f"{k}={short(v)}" for k, v in self.detail.items())
        return f"{self.what}" + (f" [{d}]" if d else "")


def short(v, n=300):
    s = repr(v)
    return s if len(s) <= n else s[:n] + "…"


# -- plan <-> JSON ------------------------------------------------------------------------

def enc(x):
    if isinstance(x, float):
        if x != x: return {"$f": "nan"}
        if x == math.inf: return {"$f": "inf"}
        if x == -math.inf: return {"$f": "-inf"}
        return x
    if isinstance(x, (list, tuple)):
        return [enc(v) for v in x]
    if isinstance(x, dict):
        return {str(k): enc(v) for k, v in x.items()}
    if isinstance(x, bytes):
        return {"$b": x.decode("latin-1")}
    if x is None or isinstance(x, (bool, int, str)):
        return x
    raise TypeError(f"plan value not serialisable: {type(x)} {x!r}")


def dec(x):
    if isinstance(x, list):
        return [dec(v) for v in x]
    if isinstance(x, dict):
        if set(x) == {"$f"}:
            return float(x["$f"])
        if set(x) == {"$b"}:
            return x["$b"].encode("latin-1")
        return {k: dec(v) for k, v in x.items()}
    return x


def plan_json(plan):
    return json.dumps(enc(plan), sort_keys=True, ensure_ascii=True)


def plan_hash(plan):
    return hashlib.sha1(plan_json(plan).encode()).hexdigest()[:16]


# -- per-run context ----------------------------------------------------------------------

class Ctx:
    def __init__(self, tmpdir):
        self.classes = collections.Counter()
        self.excluded = collections.Counter()
        self.rejected = collections.Counter()
        self.known = collections.Counter()
        self.tmpdir = tmpdir
        self._n = 0

    def cls(self, *names):
        for n in names:
            self.classes[n] += 1

    def excl(self, name):
        self.excluded[name] += 1

    def reject(self, name):
        self.rejected[name] += 1

    def path(self, name):
        """A fresh file path inside the per-process temporary directory."""
        self._n += 1
        d = os.path.join(self.tmpdir, f"f{self._n}")
        os.makedirs(d, exist_ok=True)
        return os.path.join(d, name)

    def cleanup_files(self):
        for e in os.listdir(self.tmpdir):
            shutil.rmtree(os.path.join(self.tmpdir, e), ignore_errors=True)

    def call(self, label, fn, *args, **kwargs):
        """Run code under test; any exception is a violation of a totality claim."""
        try:
            return fn(*args, **kwargs)
        except Violation:
            raise
        except Exception as e:
            raise Violation(f"{label} raised", exc=f"{type(e).__name__}: {e}")


# -- environment --------------------------------------------------------------------------

_GLOBALS = {}

def setup_env(mod_numba, workdir):
    repo = os.environ.get("VERIF_REPO", "/repo")
    if not os.path.isdir(os.path.join(repo, "dataiter")):
        raise SystemExit(f"harness: no dataiter package under {repo}")
    sys.path.insert(0, repo)
    os.environ["DATAITER_VERIF"] = "1"
    if mod_numba:
        os.environ["DATAITER_USE_NUMBA"] = "true"
        # private JIT cache of this run; worker interpreters of the same run share it (never /repo's default)
        cache = os.environ.get("VERIF_RUN_NUMBA_CACHE") or os.path.join(workdir, "numba-cache")
        os.makedirs(cache, exist_ok=True)
        os.environ["NUMBA_CACHE_DIR"] = cache
        os.environ["VERIF_RUN_NUMBA_CACHE"] = cache
    else:
        os.environ["DATAITER_USE_NUMBA"] = "false"
    import warnings
    warnings.simplefilter("ignore")
    import numpy as np
    np.seterr(all="ignore")
    import dataiter
    got = os.path.realpath(os.path.dirname(os.path.dirname(dataiter.__file__)))
    if got != os.path.realpath(repo):
        raise SystemExit(f"harness: dataiter imported from {got}, expected {repo}")
    for k in dir(dataiter):
        if k.startswith(("PRINT_", "DEFAULT_PEEK_", "USE_NUMBA")):
            _GLOBALS[k] = getattr(dataiter, k)
    return dataiter


def restore_globals():
    import dataiter
    for k, v in _GLOBALS.items():
        setattr(dataiter, k, v)
    os.environ["COLUMNS"] = "80"
    os.environ["LINES"] = "24"


def load_known(pid):
    path = os.path.join(ROOT, "known_findings.json")
    if not os.path.exists(path):
        return []
    with open(path) as f:
        data = json.load(f)
    return [k for k in data.get("known", []) if k["property"] == pid]


# -- running one plan ---------------------------------------------------------------------

def run_plan(mod, plan, ctx, known_names):
    """Returns None if the property held (or a listed known finding matched)."""
    restore_globals()
    trace = os.environ.get("VERIF_TRACE_PLAN")
    if trace:           # debugging aid for interpreter crashes: the plan about to run
        with open(trace, "w") as f:
            f.write(plan_json(plan))
    try:
        mod.check(plan, ctx)
    except Violation as v:
        for name in known_names:
            m = getattr(mod, "KNOWN", {}).get(name)
            if m is not None and m(plan, v):
                ctx.known[name] += 1
                return
        raise
    finally:
        restore_globals()
        ctx.cleanup_files()


class Samples:
    def __init__(self):
        self.first = []
        self.nontrivial = []
        self.largest = None
        self.largest_len = -1
        self.last = None

    def add(self, plan, nt, n_nt):
        e = enc(plan)
        if len(self.first) < 2:
            self.first.append(e)
        if nt and (len(self.nontrivial) < 2 or n_nt in (50, 500)):
            self.nontrivial.append(e)
        n = len(plan_json(plan))
        if n > self.largest_len and n < 6000:
            self.largest, self.largest_len = e, n
        if nt:
            self.last = e

    def listing(self):
        out = list(self.first) + list(self.nontrivial)
        if self.largest is not None: out.append(self.largest)
        if self.last is not None: out.append(self.last)
        seen, uniq = set(), []
        for e in out:
            k = json.dumps(e, sort_keys=True)
            if k not in seen:
                seen.add(k); uniq.append(e)
        return uniq


def search(mod, tier, seed_value, ncases, time_budget, ctx, known_names):
    """Generated search with Hypothesis. Returns a result dict (JSON-able)."""
    import hypothesis
    from hypothesis import HealthCheck, Phase, given, settings
    t0 = time.time()
    st = {"fail": None, "harness": None, "evals": 0, "skipped_time": 0}
    nt_hashes = set()
    all_hashes = set()
    samples = Samples()
    deadline = t0 + time_budget

    def one(plan):
        if st["harness"] is not None:
            return
        if st["fail"] is None and time.time() > deadline:
            st["skipped_time"] += 1
            return
        st["evals"] += 1
        try:
            h = plan_hash(plan)
            nt = bool(mod.nontrivial(plan))
        except Exception:
            st["harness"] = traceback.format_exc()
            return
        all_hashes.add(h)
        if nt:
            nt_hashes.add(h)
        samples.add(plan, nt, len(nt_hashes))
        try:
            run_plan(mod, plan, ctx, known_names)
        except Violation as v:
            st["fail"] = (plan, v)
            raise
        except Exception:
            st["harness"] = traceback.format_exc() + "\nplan: " + plan_json(plan)[:3000]
            return

    violation = None
    for attempt in range(3):
        test = given(mod.strategy(tier))(one)
        test = hypothesis.seed(seed_value + attempt * 7919000)(test)
        test = settings(
            max_examples=ncases, deadline=None, database=None, derandomize=False,
            report_multiple_bugs=False, print_blob=False,
            phases=[Phase.generate, Phase.shrink],
            suppress_health_check=[HealthCheck.too_slow, HealthCheck.data_too_large,
                                   HealthCheck.large_base_example],
        )(test)
        try:
            test()
        except Violation:
            plan, v = st["fail"]
            violation = {"plan": enc(plan), "what": v.what, "detail": {k: short(x, 1500) for k, x in v.detail.items()},
                         "hashseed": int(os.environ.get("PYTHONHASHSEED", "0") or 0)}
        except hypothesis.errors.Flaky:
            # A plan failed once and passed when Hypothesis ran it again: something an EARLIER case left behind in this
            # process made it fail. That is not reproducible from the plan, so it is not reported; the search goes on
            # under another seed to find a plan that carries the history in itself (up to three attempts).
            st["flaky"] = st.get("flaky", 0) + 1
            st["fail"] = None
            if attempt < 2:
                continue
            st["harness"] = ("a case failed only because of what an earlier case left behind in the process (three searches "
                             "ended that way); no self-contained failing plan was found\n" + traceback.format_exc())
        except Exception:
            if st["harness"] is None:
                st["harness"] = traceback.format_exc()
        break
    return {
        "evaluations": st["evals"],
        "distinct": len(all_hashes),
        "nt_hashes": sorted(nt_hashes),
        "classes": dict(ctx.classes),
        "excluded": dict(ctx.excluded),
        "rejected": dict(ctx.rejected),
        "known": dict(ctx.known),
        "samples": samples.listing(),
        "violation": violation,
        "harness_error": st["harness"],
        "skipped_time": st["skipped_time"],
        "wall_s": round(time.time() - t0, 2),
        "seed": seed_value,
    }


# -- replays ------------------------------------------------------------------------------

def run_replays(mod, pid, ctx, known):
    """Committed regressions and known-finding witnesses. Returns (n_run, violations, lines)."""
    violations, lines, n = [], [], 0
    known_by_witness = {os.path.normpath(k.get("witness", "")): k for k in known}
    rdir = os.path.join(ROOT, "replays", pid)
    files = sorted(os.listdir(rdir)) if os.path.isdir(rdir) else []
    for fn in files:
        if not fn.endswith(".json"):
            continue
        rel = os.path.normpath(os.path.join("replays", pid, fn))
        with open(os.path.join(ROOT, rel)) as f:
            doc = json.load(f)
        plan = dec(doc["plan"])
        n += 1
        kf = known_by_witness.get(rel)
        if doc.get("isolate") or str(doc.get("hashseed", 0)) != os.environ.get("PYTHONHASHSEED", "0"):
            # a plan that used to crash the interpreter is replayed in its own process
            r = subprocess.run([sys.executable, os.path.join(ROOT, "check"), pid, "--replay", rel, "--no-known"],
                               capture_output=True, text=True)
            if r.returncode != 0:
                what = "the interpreter crashed while running this plan" if r.returncode < 0 else \
                    ([l for l in r.stdout.splitlines() if l.startswith("detail:")] or ["replay failed"])[0]
                violations.append({"plan": enc(plan), "what": what, "detail": {"exit": str(r.returncode)},
                                   "replay": os.path.join(ROOT, rel)})
            continue
        try:
            run_plan(mod, plan, ctx, [])
        except Violation as v:
            if kf is not None and mod.KNOWN[kf["id"]](plan, v):
                lines.append(f"KNOWN-FINDING: property={pid} {kf['id']}: {kf['what']}")
                continue
            violations.append({"plan": enc(plan), "what": v.what,
                               "detail": {k: short(x, 1500) for k, x in v.detail.items()},
                               "replay": os.path.join(ROOT, rel)})
            continue
        if kf is not None:
            lines.append(f"NOTE: known finding {kf['id']} of {pid} no longer reproduces on this tree")
    return n, violations, lines


def save_found(pid, viol):
    d = os.path.join(ROOT, "replays", "found")
    os.makedirs(d, exist_ok=True)
    h = hashlib.sha1(json.dumps(viol["plan"], sort_keys=True).encode()).hexdigest()[:12]
    path = os.path.join(d, f"{pid}-{h}.json")
    with open(path, "w") as f:
        # no sort_keys: the insertion order of dict keys inside a plan can matter (items of lists of dicts)
        doc = {"property": pid, "plan": viol["plan"], "what": viol["what"], "detail": viol["detail"]}
        if viol.get("hashseed"):
            doc["hashseed"] = viol["hashseed"]          # found by a shard running under this PYTHONHASHSEED
        json.dump(doc, f, indent=1)
        f.write("\n")
    return path


# -- evidence -----------------------------------------------------------------------------

def write_evidence(mod, pid, tier, seed_value, results, replays_run, kf_lines, nviol, wall, shards):
    cov = {
        "evaluations": sum(r["evaluations"] for r in results) + replays_run,
        "distinct_nontrivial": len(set().union(*[set(r["nt_hashes"]) for r in results])) if results else 0,
        "distinct_plans": sum(r["distinct"] for r in results),
        "rule": mod.RULE,
        "samples": [s for r in results[:2] for s in r["samples"]][:10],
        "classes": dict(sum((collections.Counter(r["classes"]) for r in results), collections.Counter())),
        "excluded": dict(sum((collections.Counter(r["excluded"]) for r in results), collections.Counter())),
        "rejected": dict(sum((collections.Counter(r["rejected"]) for r in results), collections.Counter())),
        "known_finding_hits": dict(sum((collections.Counter(r["known"]) for r in results), collections.Counter())),
        "known_findings_reported": kf_lines,
        "replays_run": replays_run,
        "shards": shards,
        "cases_skipped_for_time": sum(r["skipped_time"] for r in results),
        "exhaustive": False,
    }
    extra = getattr(mod, "EXTRA_COVERAGE", None)
    if extra:
        cov.update(extra)
    doc = {
        "property_id": pid, "tier": tier, "seed": seed_value, "level": "exploration",
        "coverage": cov,
        "assumptions": list(getattr(mod, "ASSUMPTIONS", [])) + [
            "Hypothesis 6.168 generation is the only source of randomness (seed = VERIF_SEED*1000+shard)",
            "NumPy / pyarrow / pandas / Python stdlib behave as their documentation says",
        ],
        "wall_s": round(wall, 2),
        "violations": nviol,
    }
    edir = os.path.join(ROOT, "evidence")
    if os.path.realpath(os.environ.get("VERIF_REPO", "/repo")) != "/repo":
        # self-test runs against scratch copies never touch the committed evidence
        edir = os.path.join(tempfile.gettempdir(), "verif-scratch-evidence")
    os.makedirs(edir, exist_ok=True)
    path = os.path.join(edir, f"{pid}.json")
    tmp = f"{path}.{os.getpid()}.tmp"             # unique: concurrent scratch runs (tools/selftest.py) share the directory
    with open(tmp, "w") as f:
        json.dump(doc, f, indent=1)
        f.write("\n")
    os.replace(tmp, path)


# -- setup --------------------------------------------------------------------------------

def do_setup():
    """Verify third-party imports; install hypothesis offline beside /venv's packages if missing."""
    try:
        import hypothesis  # noqa
    except ImportError:
        deps = os.path.join(ROOT, ".deps")
        os.makedirs(deps, exist_ok=True)
        cmd = [sys.executable, "-m", "pip", "install", "--no-index", "--find-links",
               "/opt/veriftools/wheels", "--target", deps, "hypothesis"]
        print("setup:", " ".join(cmd))
        subprocess.check_call(cmd)
        sys.path.insert(1, deps)
        import hypothesis  # noqa
    try:
        sys.path.insert(1, os.path.join(ROOT, ".deps"))
        import atheris  # noqa
    except ImportError:
        deps = os.path.join(ROOT, ".deps")
        os.makedirs(deps, exist_ok=True)
        r = subprocess.run([sys.executable, "-m", "pip", "install", "--no-index", "--find-links", "/opt/veriftools/wheels",
                            "--target", deps, "atheris"], capture_output=True, text=True)
        print("setup: atheris", "installed into .deps" if r.returncode == 0 else
              "not available (the coverage-guided leg of the thorough tier is skipped): " + r.stderr.strip()[-200:])
    import numpy, pyarrow, pandas, wcwidth, attd  # noqa
    try:
        import numba  # noqa
    except ImportError:
        print("setup: numba missing; C08 will report a harness error")
    print("setup ok: hypothesis", hypothesis.__version__, "numpy", numpy.__version__)
    return 0


# -- main ---------------------------------------------------------------------------------

def main(argv):
    ap = argparse.ArgumentParser()
    ap.add_argument("pid", nargs="?")
    ap.add_argument("--tier", default=os.environ.get("VERIF_TIER", "quick"), choices=["quick", "thorough"])
    ap.add_argument("--replay")
    ap.add_argument("--setup", action="store_true")
    ap.add_argument("--cases", type=int)
    ap.add_argument("--time", type=float)
    ap.add_argument("--shards", type=int)
    ap.add_argument("--shard", type=int)
    ap.add_argument("--shard-out")
    ap.add_argument("--no-known", action="store_true", help="do not swallow known findings (self-test)")
    args = ap.parse_args(argv)
    if args.setup:
        return do_setup()
    pid = args.pid
    if pid not in MODULES:
        print(f"harness: unknown property {pid!r}")
        return 2
    try:
        import hypothesis  # noqa
    except ImportError:
        do_setup()
    seed_base = int(os.environ.get("VERIF_SEED", "1") or "1")
    t0 = time.time()
    work = tempfile.mkdtemp(prefix=f"verif-{pid}-")
    try:
        return _main(args, pid, seed_base, t0, work)
    except SystemExit as e:
        print(e)
        return 2
    except Exception:
        traceback.print_exc()
        print(f"harness: error in check {pid}")
        return 2
    finally:
        shutil.rmtree(work, ignore_errors=True)


def _main(args, pid, seed_base, t0, work):
    # The module declares whether it needs Numba before dataiter is imported.
    src = open(os.path.join(ROOT, "vlib", MODULES[pid] + ".py")).read()
    needs_numba = "\nNUMBA = True" in src
    setup_env(needs_numba, work)
    mod = importlib.import_module("vlib." + MODULES[pid])
    known = [] if args.no_known else load_known(pid)
    known_names = [k["id"] for k in known]
    tmp = os.path.join(work, "files")
    os.makedirs(tmp, exist_ok=True)
    ctx = Ctx(tmp)
    tier = args.tier

    if args.replay:
        path = args.replay if os.path.isabs(args.replay) else os.path.join(ROOT, args.replay)
        with open(path) as f:
            doc = json.load(f)
        hs = str(doc.get("hashseed", 0))
        if hs != os.environ.get("PYTHONHASHSEED", "0"):
            # the plan was found under another (fixed) hash seed: replay it in an interpreter started with that one
            r = subprocess.run([sys.executable, os.path.join(ROOT, "check")] + sys.argv[1:], env=dict(os.environ, VERIF_HASHSEED=hs))
            return r.returncode
        plan = dec(doc["plan"])
        try:
            run_plan(mod, plan, ctx, [])
        except Violation as v:
            for k in known:
                if mod.KNOWN[k["id"]](plan, v):
                    print(f"KNOWN-FINDING: property={pid} {k['id']}: {k['what']}")
                    return 0
            print("detail:", v.text())
            print(f"VIOLATION property={pid} replay={path}")
            return 1
        print(f"replay passed: {path}")
        return 0

    ncases = args.cases or mod.CASES[tier]
    budget = args.time or getattr(mod, "TIME", DEFAULT_TIME)[tier]

    if args.shard is not None:
        # Worker of a sharded run: search only, write the result for the parent.
        res = search(mod, tier, seed_base * 1000 + args.shard, ncases, budget, ctx, known_names)
        with open(args.shard_out, "w") as f:
            json.dump(res, f)
        return 0

    # 1. replay tier
    replays_run, violations, lines = run_replays(mod, pid, ctx, known)
    for ln in lines:
        print(ln)

    # 2. optional module-specific deterministic legs (e.g. C08 cross-process histories)
    extra_leg = getattr(mod, "extra_leg", None)
    results = []
    pending = None
    if extra_leg is not None and args.shard is None:
        # runs beside the generated search (it only spawns and waits for other interpreters)
        from multiprocessing.pool import ThreadPool
        pending = ThreadPool(1).apply_async(extra_leg, (tier, seed_base, ctx, known_names, work))

    # 3. generated search
    # The search always runs in worker interpreters (one per shard) so that a crash of the
    # interpreter inside the code under test is reported with the plan that caused it.
    nshards = args.shards or NSHARDS[tier]
    procs = []
    check = os.path.join(ROOT, "check")
    for k in range(nshards):
        out = os.path.join(work, f"shard{k}.json")
        trace = os.path.join(work, f"shard{k}.trace")
        cmd = [sys.executable, check, pid, "--tier", tier, "--shard", str(k), "--shard-out", out,
               "--cases", str(ncases), "--time", str(budget)]
        if args.no_known:
            cmd.append("--no-known")
        log = open(os.path.join(work, f"shard{k}.log"), "w")
        # each shard runs under its own fixed hash seed (0, 1, 2, ...): iteration order of sets of strings differs
        # between them, so a result that depends on it shows in at least one; the seed is stored with a found replay
        env = dict(os.environ, VERIF_TRACE_PLAN=trace, VERIF_HASHSEED=str(k))
        procs.append((k, out, trace, log, subprocess.Popen(cmd, stdout=log, stderr=subprocess.STDOUT, env=env)))
    # coverage-guided leg (thorough tier, modules that declare FUZZ_RUNS): atheris drives the same strategy + check
    fuzz = []
    fuzz_runs = getattr(mod, "FUZZ_RUNS", {}).get(tier)
    if fuzz_runs and os.path.isdir(os.path.join(ROOT, ".deps", "atheris")):
        for k in range(8):
            out = os.path.join(work, f"fuzz{k}.json")
            corpus = os.path.join(work, f"corpus{k}")
            os.makedirs(corpus, exist_ok=True)
            env = dict(os.environ, PYTHONPATH=os.pathsep.join([os.path.join(ROOT, ".deps"), ROOT]))
            cmd = [sys.executable, "-m", "vlib.fuzz", pid, str(fuzz_runs), str(seed_base * 100 + k + 1), out, corpus]
            log = open(os.path.join(work, f"fuzz{k}.log"), "w")
            fuzz.append((out, log, subprocess.Popen(cmd, stdout=log, stderr=subprocess.STDOUT, env=env, cwd=ROOT)))
    for k, out, trace, log, p in procs:
        p.wait()
        log.close()
        if not os.path.exists(out):
            if p.returncode < 0 and os.path.exists(trace):
                with open(trace) as f:
                    crashed = json.load(f)
                violations.append({"plan": crashed, "what": "the interpreter crashed while running this plan",
                                   "detail": {"signal": str(-p.returncode)}})
                continue
            print(open(os.path.join(work, f"shard{k}.log")).read()[-3000:])
            print(f"harness: shard {k} of {pid} produced no result (exit {p.returncode})")
            return 2
        with open(out) as f:
            results.append(json.load(f))

    fuzz_execs, fuzz_nt = 0, set()
    for out, log, p in fuzz:
        try:
            p.wait(timeout=budget)
        except subprocess.TimeoutExpired:
            p.kill()
        log.close()
        if os.path.exists(out):
            with open(out) as f:
                fr = json.load(f)
            fuzz_execs += fr["fuzz_execs"]
            fuzz_nt |= set(fr["nt_hashes"])
            if fr.get("violation"):
                violations.append(fr["violation"])
    if fuzz:
        results.append({"evaluations": fuzz_execs, "distinct": len(fuzz_nt), "nt_hashes": sorted(fuzz_nt), "classes": {},
                        "excluded": {}, "rejected": {}, "known": {}, "samples": [], "violation": None,
                        "harness_error": None, "skipped_time": 0, "wall_s": 0, "seed": seed_base})
        mod.EXTRA_COVERAGE = dict(getattr(mod, "EXTRA_COVERAGE", None) or {}, fuzz_execs=fuzz_execs,
                                  fuzz_processes=len(fuzz), fuzz_engine="atheris/libFuzzer via hypothesis.fuzz_one_input, dataiter instrumented")
    if pending is not None:
        r = pending.get()
        violations += r.pop("violations", [])
        results.insert(0, r)

    harness = [r["harness_error"] for r in results if r.get("harness_error")]
    seen = set()
    for r in results:
        v = r.get("violation")
        if v:
            key = json.dumps(v["plan"], sort_keys=True)
            if key not in seen:
                seen.add(key)
                violations.append(v)

    kf_lines = [ln for ln in lines if ln.startswith("KNOWN-FINDING")]
    wall = time.time() - t0
    write_evidence(mod, pid, tier, seed_base, results, replays_run, kf_lines, len(violations), wall, nshards)

    nev = sum(r["evaluations"] for r in results)
    nnt = len(set().union(*[set(r["nt_hashes"]) for r in results]))
    print(f"{pid} {tier}: {nev} cases, {nnt} distinct non-trivial, replays {replays_run}, "
          f"known-finding hits {dict(sum((collections.Counter(r['known']) for r in results), collections.Counter()))}, "
          f"{wall:.1f}s")
    if violations:
        for v in violations:
            path = v.get("replay") or save_found(pid, v)
            print("detail:", v["what"], json.dumps(v["detail"])[:2000])
            print(f"VIOLATION property={pid} replay={path}")
        return 1
    if harness:
        print(harness[0])
        print(f"harness: error inside check {pid} (not a violation)")
        return 2
    min_cases = min(ncases, 50)
    if nev < min_cases:
        print(f"harness: only {nev} cases ran within the time budget")
        return 2
    return 0
