# -*- coding: utf-8 -*-
"""C08 — Numba acceleration never changes aggregation results (inputs, configurations, first-use histories)."""

import collections
import itertools
import json
import math
import os
import shutil
import subprocess
import sys
import tempfile
import time
from multiprocessing.pool import ThreadPool

import numpy as np
import dataiter as di
from hypothesis import strategies as st

from . import build, gen
from .runner import Violation, enc, plan_hash, short

NUMBA = True

ID = "C08"
RULE = ("Leg A (inputs/configurations): plan = helper x eligible kind (bool, int64, float64, date, datetime[us]; float32/int32 at "
        "low weight) x values x group labels x arguments as in C07; after a benign warm-up of every kernel family per kind, "
        "aggregate runs with dataiter.USE_NUMBA False and True on identical input; oracle = same dtype, same missing positions, "
        "values within rel 1e-9 / abs 1e-12 (a plan on which the pure-Python path raises is outside the helper's domain and "
        "counted as rejected). Leg B (histories): plan = ordered list of 2..4 first uses (helper, kind) + cache on/off + process "
        "split; executed in fresh interpreters with a private NUMBA_CACHE_DIR by a fixed driver on a fixed 6-row frame per kind; "
        "oracle = the pure-Python result of the same step. Quick: histories covering every ordered pair of kernel families; "
        "thorough: every ordered pair of the 16 helpers per kind plus Hypothesis-drawn triples and two-process splits. "
        "Non-trivial: leg A as C07 (non-default argument / missing value / single-element group); leg B: ≥ 2 kernel families on "
        "one kind. Distinct = plan hash.")
CASES = {"quick": 1500, "thorough": 6000}
TIME = {"quick": 240, "thorough": 2400}
TOL = (1e-9, 1e-12)
ASSUMPTIONS = ["LLVM / Numba compilation is deterministic for a given order of first use",
               "leg B samples orders of first use; it does not enumerate all 16! of them"]

ALL = ["all", "any", "count", "count_unique", "first", "last", "nth", "min", "max", "mode", "mean", "median", "quantile",
       "std", "var", "sum"]
ORD = ["count", "count_unique", "first", "last", "nth", "min", "max", "mode"]
FAMILY = {"all": "generic", "any": "generic", "count": "generic", "mean": "generic", "median": "generic", "std": "generic",
          "var": "generic", "sum": "generic", "min": "generic-none", "max": "generic-none", "first": "nth", "last": "nth",
          "nth": "nth", "mode": "mode", "count_unique": "count_unique", "quantile": "quantile"}
POOLS = {
    "f": [gen.NAN, gen.NAN, -3.0, -0.0, 0.0, 0.5, 1.0, 2.5, 1e6, gen.INF, -gen.INF], "i": [0, 1, 2, -1, 7, 2**40],
    "b": [True, False], "d": [None, None, "2020-01-01", "2020-01-02", "1969-12-31"],
    "t": [None, "2020-01-01T00:00:00.000001", "2020-01-01T12:00:00", "1969-12-31T23:59:59"],
    "f32": [gen.NAN, 0.0, 1.0, 2.5, -3.0], "i32": [0, 1, 2, -1, 5],
    # nanosecond timestamps (what from_pandas / read_csv hand over), neighbours within one microsecond
    "tn": [None, "2020-01-01T00:00:00.000000001", "2020-01-01T00:00:00.000000002", "2020-01-01T00:00:00.000001",
           "1969-12-31T23:59:59.999999999", "2020-01-01T12:00:00"],
}


# ---- leg A: in-process differential -----------------------------------------------------------

@st.composite
def _plan(draw, max_len, narrow=True):
    # float32 / int32 columns (known finding R21) are explored in the thorough tier only: their kernels
    # double the JIT warm-up of the quick tier; the R21 witness replay runs in both tiers.
    h = draw(st.sampled_from(ALL))
    numeric = ["f", "f", "f", "i", "i", "b"] + (["f32", "i32"] if narrow else [])
    kind = draw(st.sampled_from(numeric + ["d", "d", "t", "t", "tn"] if h in ORD else numeric))
    n = draw(st.one_of(st.sampled_from([1, 2, 0]), st.integers(1, max_len)))          # also the frame without rows
    pool = POOLS[kind]
    if draw(st.booleans()):
        pool = pool[:4]
    ngroups = 2
    if kind == "i" and h == "mean" and draw(st.integers(0, 2)) == 0:
        # integers whose sum does not fit into 64 bits although every value and the mean do
        pool = [2**62, 2**62 + 1, 2**62 - 5, 3]
    if kind == "f" and h == "sum" and draw(st.integers(0, 2)) == 0:
        # magnitudes that swallow small addends, and an infinity: each group's sum is that group's alone
        pool = [4e16, 1.0, 2.0, gen.INF, 0.5, 4e16]
    if kind in ("f", "i") and h in ("std", "var", "mean", "sum", "median", "quantile") and draw(st.integers(0, 4)) == 0:
        # a large common offset with a small spread: where one-pass formulas cancel catastrophically
        pool = [1e9 + 1, 1e9 + 2, 1e9 + 3, 1e9 + 3] if kind == "f" else [10**8 + 1, 10**8 + 2, 10**8 + 4]
        ngroups = draw(st.integers(0, 1))
    if h == "mode" and draw(st.integers(0, 3)):
        # tie patterns such as [1, 2, 2, 1] need few distinct values in few, larger groups
        nn = [v for v in pool if v == v and v is not None and v != ""]
        pool = nn[:2] + [v for v in pool if v not in nn][:draw(st.integers(0, 1))]
        ngroups = draw(st.integers(0, 1))
        n = max(n, draw(st.integers(4, max(4, max_len))))
    vals = [draw(st.sampled_from(pool)) for _ in range(n)]
    groups = [draw(st.integers(0, ngroups)) for _ in range(n)]
    used_before = draw(st.integers(0, 3)) == 0
    if draw(st.integers(0, 19 if h != "mode" else 3)) == 0:
        # long columns (65 .. 2049 elements, groups of up to a thousand rows) laid out by an arithmetic pattern over
        # the pool: beyond any size threshold at which a kernel might switch algorithms
        n = draw(st.sampled_from(gen.BIG_SIZES + gen.HUGE_SIZES[:3]))
        a, b, c = draw(st.integers(1, 97)), draw(st.integers(0, 97)), draw(st.integers(1, 97))
        ng = draw(st.sampled_from([1, 2, 3, 7]))
        # a sorted stretch too, so that a group's most frequent / largest values coincide now and then
        vals = [pool[min((i * len(pool)) // n, len(pool) - 1)] if a % 2 else pool[(i * a + (i * i // 3) * b) % len(pool)] for i in range(n)]
        groups = [(i * c + i // 5) % ng for i in range(n)]
        if b % 3 == 0:
            # frequencies rising (or falling) with the value: the most frequent value is the largest (smallest) one
            nn = sorted((v for v in pool if v is not None and v == v), key=lambda v: (str(type(v)), v))
            weighted = [v for j, v in enumerate(nn if b % 2 else nn[::-1]) for _ in range(j + 1)]
            vals = [weighted[(i * a) % len(weighted)] for i in range(n)]
    args = {}
    keepna_focus = h in ("median", "quantile") and kind == "f" and draw(st.integers(0, 2)) == 0
    if keepna_focus:
        # order statistics with the missing values kept: groups of 3 .. 9 finite values with a NaN somewhere in the
        # middle (a partition-based kernel must still notice it)
        n = draw(st.integers(3, 9))
        vals = [draw(st.sampled_from([gen.NAN, 5.0, 13.0, 7.0, 1.0, 9.5, 2.0])) for _ in range(n)]
        groups = [draw(st.integers(0, 1)) for _ in range(n)]
        args["drop_na"] = False
    elif h not in ("all", "any") and draw(st.integers(0, 2)):
        args["drop_na"] = draw(st.booleans())
        if draw(st.integers(0, 3)) == 0:
            args["_flagkind"] = draw(st.sampled_from(["np", "int"]))
    if h == "nth":
        sizes = sorted({groups.count(g) for g in set(groups)} | {n})
        edges = [e for k in sizes for e in (-k - 1, -k, -1, 0, k - 1, k)]
        args["index"] = draw(st.one_of(st.integers(-n - 2, n + 2), st.sampled_from(edges)))
    if h == "quantile":
        args["q"] = draw(st.sampled_from([0, 0.1, 0.25, 0.5, 0.9, 1]))
    if h in ("std", "var") and draw(st.integers(0, 2)) == 0:
        args["ddof"] = draw(st.sampled_from([0, 1, 1, 2, 3]))      # the differential is defined for every ddof
    # further helpers on the same column as later summaries of the same aggregate call
    extra = draw(st.lists(st.sampled_from(["first", "last", "nth1", "count", "min", "max", "count_unique_dropna"]),
                          max_size=2, unique=True))
    return {"kind": kind, "helper": h, "vals": vals, "groups": groups, "args": args, "extra": extra, "helpers_used_before": used_before}


def strategy(tier):
    return _plan(8 if tier == "quick" else 24, narrow=(tier != "quick"))


def nontrivial(plan):
    if "steps" in plan:
        fams = collections.defaultdict(set)
        for h, k in plan["steps"]:
            fams[k].add(FAMILY[h])
        return any(len(v) >= 2 for v in fams.values())
    args, vals, kind = plan["args"], plan["vals"], plan["kind"]
    if args:
        return True
    if any(build.plan_isna("f" if kind == "f32" else kind, v) for v in vals if kind not in ("i", "i32", "b")):
        return True
    c = collections.Counter(plan["groups"])
    return any(n == 1 for n in c.values())


def _helper(plan):
    a = {k: v for k, v in plan["args"].items() if k != "_flagkind"}
    if plan["args"].get("_flagkind") and "drop_na" in a:
        # the flag as a NumPy bool or 0 / 1 instead of a Python bool
        a["drop_na"] = {"np": np.bool_(a["drop_na"]), "int": int(a["drop_na"])}[plan["args"]["_flagkind"]]
    f = getattr(di, plan["helper"])
    if plan["helper"] == "nth":
        return f("x", a.pop("index"), **a)
    if plan["helper"] == "quantile":
        return f("x", a.pop("q"), **a)
    return f("x", **a)


_EXTRA = {"first": lambda: di.first("x"), "last": lambda: di.last("x"), "nth1": lambda: di.nth("x", 1),
          "count": lambda: di.count("x"), "min": lambda: di.min("x"), "max": lambda: di.max("x"),
          "count_unique_dropna": lambda: di.count_unique("x", drop_na=True)}


def _summaries(plan):
    out = {"y": _helper(plan)}
    for j, e in enumerate(plan.get("extra", [])):
        out[f"z{j}"] = _EXTRA[e]()
    return out


def _frame(plan):
    return di.DataFrame({"g": np.array(plan["groups"], dtype=np.int64).view(di.DataFrameColumn),
                         "x": build.column(plan["kind"], plan["vals"])})


_warm = set()


def _warm_up(kind):
    """Compile every kernel family for this kind in a fixed benign order (nth/mode before min/max)."""
    if kind in _warm:
        return
    di.USE_NUMBA = True
    vals = (POOLS[kind] * 3)[-3:]
    data = di.DataFrame({"g": np.array([1, 1, 2]).view(di.DataFrameColumn), "x": build.column(kind, vals)})
    hs = [di.nth("x", 1), di.first("x"), di.last("x"), di.mode("x"), di.count_unique("x"), di.count("x"),
          di.min("x"), di.max("x")]
    if kind in ("f", "i", "b", "f32", "i32"):
        hs += [di.quantile("x", 0.5), di.all("x"), di.any("x"), di.mean("x"), di.median("x"), di.std("x"),
               di.var("x"), di.sum("x")]
    for h in hs:
        data.group_by("g").aggregate(y=h)
    _warm.add(kind)


def check(plan, ctx):
    if "steps" in plan:
        return _check_history(plan, ctx)
    _warm_up(plan["kind"])
    ctx.cls("helper_" + plan["helper"], "kind_" + plan["kind"])
    data = _frame(plan)
    before = build.snap_frame(data)
    di.USE_NUMBA = False
    try:
        eall = data.group_by("g").aggregate(**_summaries(plan))
    except Exception as ex:
        ctx.reject(f"python path raises: {plan['helper']} on {plan['kind']}: {type(ex).__name__}")
        return
    di.USE_NUMBA = True
    data._group_colnames = ()
    sums = _summaries(plan)
    if plan.get("helpers_used_before") and plan["kind"] in ("i", "b", "d", "t"):
        # history: the very same helper objects summarised a frame whose column "x" is of another kind (float) before
        other = di.DataFrame({"g": np.array([1, 1, 2]).view(di.DataFrameColumn), "x": build.column("f", [0.5, gen.NAN, 2.5])})
        try:
            other.group_by("g").aggregate(**sums)
        except Exception:
            pass
        ctx.cls("helper_objects_used_on_a_float_column_before")
    rall = ctx.call(f"aggregate(y={plan['helper']}('x'), ...) with USE_NUMBA=True",
                    lambda: data.group_by("g").aggregate(**sums))
    di.USE_NUMBA = False
    data._group_colnames = ()
    if build.snap_frame(data) != before:
        raise Violation("aggregate changed its receiver")
    for j, name in enumerate(plan.get("extra", [])):
        a, b = build.cells(eall[f"z{j}"]), build.cells(rall[f"z{j}"])
        if len(a) != len(b) or not all(build.same_cell(x, y, tol=TOL) for x, y in zip(a, b)) \
                or (plan["kind"] not in ("f32", "i32") and str(eall[f"z{j}"].dtype) != str(rall[f"z{j}"].dtype)):
            raise Violation("a later summary of the same aggregate call differs between Numba on and off",
                            first_helper=plan["helper"], later=name, python=a, numba=b,
                            pdtype=str(eall[f"z{j}"].dtype), ndtype=str(rall[f"z{j}"].dtype))
    e, r = eall["y"], rall["y"]
    ec, rc = build.cells(e), build.cells(r)
    if len(ec) != len(rc):
        raise Violation("number of groups differs between Numba on and off", python=ec, numba=rc)
    if [x is None for x in ec] != [x is None for x in rc]:
        raise Violation("missing positions differ between Numba on and off", python=ec, numba=rc,
                        pdtype=str(e.dtype), ndtype=str(r.dtype))
    tol = (2e-6, 1e-6) if plan["kind"] == "f32" else TOL     # float32 arithmetic rounds at 2**-24
    for a, b in zip(ec, rc):
        if not build.same_cell(a, b, tol=tol):
            raise Violation("values differ between Numba on and off", python=ec, numba=rc)
    if str(e.dtype) != str(r.dtype):
        raise Violation("result dtype differs between Numba on and off", python=str(e.dtype), numba=str(r.dtype))


# ---- leg B: first-use histories in fresh interpreters -------------------------------------------

def _same_step(a, b):
    if a[0] != b[0]:
        return False
    if a[0] == "EXC":
        return True
    if len(a[1]) != len(b[1]):
        return False
    for x, y in zip(a[1], b[1]):
        if x is None or y is None:
            if not (x is None and y is None):
                return False
        elif isinstance(x, float) or isinstance(y, float):
            if isinstance(x, bool) or isinstance(y, bool) or isinstance(x, str) or isinstance(y, str):
                return False
            if not (x == y or math.isclose(x, y, rel_tol=TOL[0], abs_tol=TOL[1])):
                return False
        elif x != y or type(x) is not type(y):
            return False
    return True


def run_history(plan, workdir):
    """Returns (bad_steps, detail). bad_steps: list of (process, step index, got, exp)."""
    cache = tempfile.mkdtemp(prefix="nbcache-", dir=workdir)
    env = dict(os.environ, NUMBA_CACHE_DIR=cache, DATAITER_USE_NUMBA="true",
               DATAITER_USE_NUMBA_CACHE="true" if plan.get("cache", True) else "false",
               VERIF_REPO=os.environ.get("VERIF_REPO", "/repo"), PYTHONDONTWRITEBYTECODE="1")
    driver = os.path.join(os.path.dirname(os.path.abspath(__file__)), "c08_driver.py")
    steps = plan["steps"]
    k = plan.get("split", 0)
    parts = [steps] if not k or k >= len(steps) else [steps[:k], steps[k:]]
    bad = []
    try:
        for pno, part in enumerate(parts):
            r = subprocess.run([sys.executable, driver, json.dumps(part), "call" if plan.get("same_call") else "steps"],
                               capture_output=True, text=True, env=env, timeout=900)
            lines = [l for l in r.stdout.splitlines() if l.startswith("{")]
            if not lines:
                return None, "driver produced no result: " + (r.stderr or r.stdout)[-400:]
            j = json.loads(lines[-1])
            for i, (a, b) in enumerate(zip(j["got"], j["exp"])):
                if not _same_step(a, b):
                    bad.append({"process": pno, "step": part[i], "numba": a, "python": b})
        return bad, None
    finally:
        shutil.rmtree(cache, ignore_errors=True)


def _check_history(plan, ctx):
    bad, err = run_history(plan, ctx.tmpdir)
    if bad is None:
        raise RuntimeError(err)
    if bad:
        raise Violation("result under Numba depends on the order of first use (differs from the pure-Python result)",
                        steps=plan["steps"], cache=plan.get("cache", True), split=plan.get("split", 0),
                        same_call=plan.get("same_call", False), wrong=bad[:3])


KINDS_B = ["f", "i", "b", "d", "t"]

def _helpers_for(kind):
    return ALL if kind in ("f", "i", "b") else ORD


def _family_pair_histories():
    """One history per ordered pair of kernel families (quick tier), rotating over kinds."""
    rep = {"generic": "sum", "generic-none": "min", "nth": "first", "mode": "mode", "count_unique": "count_unique",
           "quantile": "quantile"}
    rep_ord = {"generic": "count", "generic-none": "max", "nth": "nth", "mode": "mode", "count_unique": "count_unique"}
    out = []
    kinds = itertools.cycle(KINDS_B)
    fams = list(rep)
    # chain histories of 4 steps so that the 30 ordered pairs fit in ~10 interpreters
    pairs = [(a, b) for a in fams for b in fams if a != b]
    while pairs:
        kind = next(kinds)
        table = rep if kind in ("f", "i", "b") else rep_ord
        usable = [p for p in pairs if p[0] in table and p[1] in table]
        if not usable:
            continue
        a, b = usable[0]
        steps = [[table[a], kind], [table[b], kind]]
        pairs.remove((a, b))
        # extend greedily with further uncovered pairs starting from b (only the first use of a family matters)
        used = {a, b}
        cur = b
        while len(steps) < 4:
            nxt = [p for p in pairs if p[0] == cur and p[1] in table and p[1] not in used]
            if not nxt:
                break
            steps.append([table[nxt[0][1]], kind])
            pairs.remove(nxt[0])
            used.add(nxt[0][1])
            cur = nxt[0][1]
        out.append({"steps": steps, "cache": True, "split": 0})
    return out


@st.composite
def _history(draw):
    kind = draw(st.sampled_from(KINDS_B))
    hs = _helpers_for(kind)
    n = draw(st.integers(2, 4))
    steps = []
    for _ in range(n):
        k2 = kind if draw(st.integers(0, 3)) else draw(st.sampled_from(KINDS_B))
        steps.append([draw(st.sampled_from(_helpers_for(k2))), k2])
    return {"steps": steps, "cache": draw(st.booleans()), "split": draw(st.integers(0, n - 1)),
            "same_call": draw(st.integers(0, 3)) == 0}


def _draw_histories(n, seed_value):
    """Collect n Hypothesis-generated histories (generation only; execution is parallel afterwards)."""
    import hypothesis
    from hypothesis import HealthCheck, Phase, given, settings
    got = []

    @settings(max_examples=n, deadline=None, database=None, phases=[Phase.generate],
              suppress_health_check=list(HealthCheck))
    @hypothesis.seed(seed_value)
    @given(_history())
    def collect(h):
        got.append(h)
    collect()
    uniq, seen = [], set()
    for h in got:
        k = plan_hash(h)
        if k not in seen:
            seen.add(k)
            uniq.append(h)
    return uniq


def extra_leg(tier, seed_base, ctx, known_names, work):
    t0 = time.time()
    if os.environ.get("VERIF_C08_DEV_SKIP_LEG_B"):      # development aid only; never set by registered commands
        return {"evaluations": 0, "distinct": 0, "nt_hashes": [], "classes": {}, "excluded": {}, "rejected": {},
                "known": {}, "samples": [], "violation": None, "harness_error": None, "skipped_time": 0, "wall_s": 0.0,
                "seed": seed_base}
    plans = _family_pair_histories()
    # a two-process split sharing the cache, and the same with the cache switched off
    plans.append({"steps": [["max", "f"], ["last", "f"]], "cache": True, "split": 1})
    plans.append({"steps": [["min", "d"], ["mode", "d"]], "cache": False, "split": 0})
    # every kernel family as the very first accelerated use on a NaN-bearing float column, followed by helpers whose
    # result depends on missing values being dropped (a flag leaking from the first compilation into shared callees)
    for firsth in ["mode", "first", "min", "count_unique", "quantile", "sum"]:
        plans.append({"steps": [[firsth, "f"], ["mean", "f"], ["max", "f"], ["count_unique", "f"]], "cache": True, "split": 0})
    plans.append({"steps": [["mode", "d"], ["min", "d"], ["count_unique", "d"]], "cache": True, "split": 1})
    # several helpers as summaries of one aggregate call ("in the same call")
    plans.append({"steps": [["max", "f"], ["first", "f"], ["mode", "f"]], "cache": True, "split": 0, "same_call": True})
    plans.append({"steps": [["min", "t"], ["nth", "t"], ["count_unique", "t"]], "cache": True, "split": 0, "same_call": True})
    if tier == "thorough":
        for kind in KINDS_B:
            for a, b in itertools.permutations(_helpers_for(kind), 2):
                plans.append({"steps": [[a, kind], [b, kind]], "cache": True, "split": 0})
        plans += _draw_histories(400, seed_base * 1000 + 777)
    else:
        plans += _draw_histories(6, seed_base * 1000 + 777)
    uniq, seen = [], set()
    for p in plans:
        k = plan_hash(p)
        if k not in seen:
            seen.add(k)
            uniq.append(p)
    plans = uniq
    hist_dir = os.path.join(work, "histories")
    os.makedirs(hist_dir, exist_ok=True)
    results = ThreadPool(16).map(lambda p: run_history(p, hist_dir), plans)
    violations, harness = [], None
    nt = set()
    classes = collections.Counter()
    known = collections.Counter()
    for p, (bad, err) in zip(plans, results):
        if nontrivial(p):
            nt.add(plan_hash(p))
        classes["history_len_%d" % len(p["steps"])] += 1
        classes["history_cache_" + ("on" if p.get("cache", True) else "off")] += 1
        if p.get("split"):
            classes["history_two_processes"] += 1
        if p.get("same_call"):
            classes["history_same_call"] += 1
        if bad is None:
            harness = err
            continue
        if bad:
            v = Violation("result under Numba depends on the order of first use (differs from the pure-Python result)",
                          steps=p["steps"], cache=p.get("cache", True), split=p.get("split", 0), wrong=bad[:3])
            matched = False
            for name in known_names:
                m = KNOWN.get(name)
                if m is not None and m(p, v):
                    known[name] += 1
                    matched = True
                    break
            if not matched:
                violations.append({"plan": enc(p), "what": v.what, "detail": {k: short(x, 1500) for k, x in v.detail.items()}})
    # keep the report small: the minimal failing histories first
    violations.sort(key=lambda v: len(v["plan"]["steps"]))
    return {
        "evaluations": len(plans), "distinct": len(plans), "nt_hashes": sorted(nt), "classes": dict(classes),
        "excluded": {}, "rejected": {}, "known": dict(known), "samples": [enc(p) for p in plans[:3] + plans[-2:]],
        "violation": None, "violations": violations[:5], "harness_error": harness, "skipped_time": 0,
        "wall_s": round(time.time() - t0, 2), "seed": seed_base,
    }


# ---- known findings (genuine Python/Numba divergences recorded, not repaired) -------------------

def _group_has(plan, pred):
    by = collections.defaultdict(list)
    for g, v in zip(plan["groups"], plan["vals"]):
        by[g].append(v)
    return any(pred(vs) for vs in by.values())


def _isna(plan, v):
    return build.plan_isna("f" if plan["kind"] == "f32" else plan["kind"], v) if plan["kind"] not in ("i", "i32", "b") else False


def _is_value_or_na_diff(v):
    return v.what.startswith(("values differ", "missing positions differ"))


def _r21(plan, v):
    return "steps" not in plan and plan["kind"] in ("f32", "i32") and v.what.startswith("result dtype differs")


def _r22(plan, v):
    if "steps" in plan or plan["helper"] not in ("median", "quantile") or not _is_value_or_na_diff(v):
        return False
    dn = plan["args"].get("drop_na", True)
    # (NaN with drop_na=False: only the median disagrees on the pinned tree - np.quantile answers NaN on both paths)
    return _group_has(plan, lambda vs: any(isinstance(x, float) and abs(x) == gen.INF for x in vs)
                      or (not dn and plan["helper"] == "median" and any(_isna(plan, x) for x in vs)))


def _r23(plan, v):
    return ("steps" not in plan and plan["helper"] == "mode" and plan["args"].get("drop_na", True) is False
            and _is_value_or_na_diff(v) and _group_has(plan, lambda vs: any(_isna(plan, x) for x in vs)))


def _r24(plan, v):
    return ("steps" not in plan and plan["helper"] == "count_unique" and not plan["args"].get("drop_na", False)
            and _is_value_or_na_diff(v) and _group_has(plan, lambda vs: sum(_isna(plan, x) for x in vs) >= 1))


KNOWN = {
    "R21-narrow-numeric-result-dtype": _r21,
    "R22-median-quantile-nan-or-inf": _r22,
    "R23-mode-keepna-missing-in-group": _r23,
    "R24-count-unique-keepna-missing-in-group": _r24,
}
