# -*- coding: utf-8 -*-
"""C19 — dt and regex functions act element-wise like datetime and re."""

import datetime
import re

import numpy as np
import dataiter as di
from hypothesis import strategies as st

from . import build, gen
from .runner import Violation

ID = "C19"
RULE = ("plan = (dt) a datetime vector of unit D/s/ms/us, years 1..9999, NaT anywhere, length 0..8 (0..20 thorough) + one of: "
        "the 11 extractors (time-of-day ones on s/ms/us only), replace with scalar or per-row vector components (valid for the "
        "unit; occasionally invalid, e.g. Feb 30), to_string with a format from a fixed family, from_string(to_string()); or "
        "(re) a string vector (incl. '', Unicode) + one of the 7 regex functions with a pattern from a fixed family (incl. "
        "empty-matching ones), flags in {0, I}, count/maxsplit in {0,1,2}, repl in {'', '!', '\\\\1'}. Oracle: Python's datetime "
        "/ re applied element by element; missing in -> missing out; raising iff Python raises; Vector .dt/.re/.str proxies and "
        "scalar arguments agree with the module functions. Non-trivial: a vector with both a missing value and ≥ 2 values, or a "
        "calendar edge (ISO week 53/1, Feb 29, pre-1970, year boundary), or an empty-matching pattern. Distinct = plan hash.")
CASES = {"quick": 3500, "thorough": 20000}
FUZZ_RUNS = {"thorough": 20000}     # coverage-guided leg, 8 processes (vlib/fuzz.py)

EXTRACTORS = ["year", "month", "day", "weekday", "isoweekday", "isoweek", "quarter"]
TIME_EXTRACTORS = ["hour", "minute", "second", "microsecond"]
TWELVE = "%m/%d/%Y %I:%M:%S %p"
FORMATS = ["%Y-%m-%d", "%d.%m.%Y", "%Y-%m-%dT%H:%M:%S", "%Y-%m-%dT%H:%M:%S.%f", "%j", "%A %B"]
EDGE_DATES = ["2020-12-31", "2021-01-03", "2021-01-04", "2024-02-29", "1969-12-31", "1970-01-01", "2015-12-28",
              "2016-01-03", "0001-01-01", "9999-12-31", "1999-12-31", "2000-01-01", "1900-02-28"]
PATTERNS = ["[a-z]", r"\d+", "x*", "$", "^", "(a)(b)?", r"\s+", ".", "a|b", "(?P<n>é)", "a", "ab", "b", "é", "1", " "]
STRINGS = ["", "a", "ab", "abc abc", "A1 b22", "é", "日本 x", "xxx", " ", "a\nb", "12", "AB", "aAbB", "É a",
           "ab\x00", "\x00a", "a\x00b", "a" * 60, "😀a",
           "a\x00c", "a\x00a", "\x00b"]          # equal up to an embedded NUL, different after it      # NULs (fixed-width strings drop trailing ones), long, astral
UNITS = {"D": "d", "s": "ts", "ms": "tm", "us": "t"}


def _dt_value(unit):
    if unit == "D":
        return st.one_of(st.none(), st.sampled_from(EDGE_DATES), st.sampled_from(EDGE_DATES), gen.TAILS["d"])
    kind = UNITS[unit]
    edge = st.sampled_from(EDGE_DATES).flatmap(
        lambda d: st.sampled_from(["T00:00:00", "T23:59:59", "T12:34:56"]).map(lambda t: d + t))
    if unit == "us":
        edge = st.one_of(edge, edge.map(lambda s: s + ".000001"), edge.map(lambda s: s + ".999999"))
    if unit == "ms":
        edge = st.one_of(edge, edge.map(lambda s: s + ".001"))
    return st.one_of(st.none(), edge, edge, gen.TAILS[kind])


@st.composite
def _dt_plan(draw, max_len):
    unit = draw(st.sampled_from(["D", "D", "s", "ms", "us", "us"]))
    n = draw(st.one_of(st.sampled_from([0, 1, 2]), st.integers(0, max_len)))
    vals = [draw(_dt_value(unit)) for _ in range(n)]
    if draw(st.integers(0, 9)) == 0:
        vals = [None] * n
    if n >= 2 and draw(st.integers(0, 19)) == 0:
        # a long vector (65 .. 2049 elements) repeating the drawn values: beyond any size threshold of a fast path
        m = draw(st.sampled_from(gen.BIG_SIZES + gen.HUGE_SIZES[:3]))
        a = draw(st.integers(1, 97))
        vals = [vals[(i * a + i // 7) % n] for i in range(m)]
        n = m
    op = draw(st.sampled_from(["extract", "extract", "replace", "to_string", "roundtrip"]))
    plan = {"area": "dt", "unit": unit, "vals": vals, "op": op}
    if op == "extract":
        plan["name"] = draw(st.sampled_from(EXTRACTORS + (TIME_EXTRACTORS if unit != "D" else [])))
    elif op == "replace":
        comps = ["year", "month", "day"] + ([] if unit == "D" else ["hour", "minute", "second"]) + \
                (["microsecond"] if unit in ("us", "ms") else [])
        chosen = draw(st.lists(st.sampled_from(comps), min_size=1, max_size=3, unique=True))
        rng = {"year": st.sampled_from([1, 1999, 2024, 9999]), "month": st.integers(1, 12),
               "day": st.sampled_from([1, 15, 28, 29, 30, 31]), "hour": st.integers(0, 23), "minute": st.integers(0, 59),
               "second": st.integers(0, 59),
               "microsecond": st.sampled_from([0, 1000, 999000]) if unit == "ms" else st.integers(0, 999999)}
        kw = {}
        for c in chosen:
            if n and draw(st.booleans()):
                kw[c] = [draw(rng[c]) for _ in range(n)]          # per-row vector
            else:
                kw[c] = draw(rng[c])
        plan["kw"] = kw
    elif op == "roundtrip":
        # a format that carries every field of the unit, and years >= 1000 (strptime needs 4 digits)
        plan["format"] = {"D": draw(st.sampled_from(["%Y-%m-%d", "%d.%m.%Y"])),
                          # the hour may be written on the 12-hour clock: the format still carries every field
                          "s": draw(st.sampled_from(["%Y-%m-%dT%H:%M:%S", TWELVE]))}.get(
            unit, draw(st.sampled_from(["%Y-%m-%dT%H:%M:%S.%f", "%Y-%m-%dT%H:%M:%S.%f", TWELVE + " .%f"])))
        if draw(st.integers(0, 5)):
            plan["vals"] = [v if v is None or int(v[:4]) >= 1000 else "2000" + v[4:] for v in vals]   # 2000 is a leap year: Feb 29 stays valid
    else:
        plan["format"] = draw(st.sampled_from(FORMATS))
    return plan


@st.composite
def _re_plan(draw, max_len):
    n = draw(st.one_of(st.sampled_from([0, 1, 2]), st.integers(0, max_len)))
    vals = [draw(st.one_of(st.sampled_from(STRINGS), st.sampled_from(STRINGS), st.text(alphabet="ab1 é\nX", max_size=5)))
            for _ in range(n)]
    if n >= 2 and draw(st.integers(0, 19)) == 0:
        m = draw(st.sampled_from(gen.BIG_SIZES + gen.HUGE_SIZES[:3]))          # a long vector repeating the drawn strings
        a = draw(st.integers(1, 97))
        vals = [vals[(i * a + i // 7) % n] for i in range(m)]
        n = m
    fn = draw(st.sampled_from(["findall", "fullmatch", "match", "search", "split", "sub", "subn"]))
    plan = {"area": "re", "vals": vals, "fn": fn, "pattern": draw(st.sampled_from(PATTERNS)),
            "flags": draw(st.sampled_from([0, 2])), "compiled": draw(st.integers(0, 3)) == 0}
    if fn == "split":
        plan["maxsplit"] = draw(st.sampled_from([0, 1, 2]))
    if fn in ("sub", "subn"):
        plan["repl"] = draw(st.sampled_from(["", "!", "\\1", "<\\g<0>>", "\\\\", "\\n", "[\\g<0>\\g<0>]", "\x00", "z" * 40]))
        plan["count"] = draw(st.sampled_from([0, 1, 2]))
    return plan


def strategy(tier):
    m = 8 if tier == "quick" else 20
    return st.one_of(_dt_plan(m), _dt_plan(m), _dt_plan(m), _re_plan(m), _re_plan(m))


def nontrivial(plan):
    vals = plan["vals"]
    if plan["area"] == "re":
        if plan["pattern"] in ("x*", "$", "^"):
            return bool(vals)
        return "" in vals and len([v for v in vals if v != ""]) >= 2
    nn = [v for v in vals if v is not None]
    if len(nn) >= 2 and len(nn) < len(vals):
        return True
    return any(v[:10] in EDGE_DATES for v in nn)


def _pyobj(unit, v):
    if unit == "D":
        return datetime.date.fromisoformat(v)
    return datetime.datetime.fromisoformat(v)


def _vector(plan):
    return build.vec(UNITS[plan["unit"]], plan["vals"])


PY_EXTRACT = {
    "year": lambda y: y.year, "month": lambda y: y.month, "day": lambda y: y.day, "hour": lambda y: y.hour,
    "minute": lambda y: y.minute, "second": lambda y: y.second, "microsecond": lambda y: y.microsecond,
    "weekday": lambda y: y.weekday(), "isoweekday": lambda y: y.isoweekday(),
    "isoweek": lambda y: y.isocalendar()[1], "quarter": lambda y: (y.month - 1) // 3 + 1,
}


def _try(f):
    try:
        return ("ok", f())
    except Exception as e:
        return ("exc", type(e).__name__, str(e)[:120])


def _check_dt(plan, ctx):
    unit, vals, op = plan["unit"], plan["vals"], plan["op"]
    n = len(vals)
    x = _vector(plan)
    before = build.snap_array(x)
    objs = [None if v is None else _pyobj(unit, v) for v in vals]
    ctx.cls("dt_" + op, "unit_" + unit)
    if op == "extract":
        name = plan["name"]
        f = getattr(di.dt, name)
        out = ctx.call(f"dt.{name}", f, x)
        got = build.cells(out)
        want = [None if o is None else PY_EXTRACT[name](o) for o in objs]
        if len(got) != n or not all(build.same_cell(a, b, numeric_loose=True) for a, b in zip(got, want)):
            raise Violation(f"dt.{name} differs from Python's datetime", got=got, want=want, input=vals)
        if n and all(o is not None for o in objs) and np.asarray(out).dtype.kind not in "iu":
            raise Violation(f"dt.{name} of a vector without NaT is not integer typed", dtype=str(np.asarray(out).dtype))
        via = ctx.call(f".dt.{name}()", lambda: getattr(x.dt, name)())
        if build.cells(via) != got or np.asarray(via).dtype != np.asarray(out).dtype:
            raise Violation(f"Vector.dt.{name}() differs from dt.{name}(vector)", proxy=build.cells(via), module=got)
        if n >= 2:
            # history: query, write into the same vector object in place (here: its elements reversed), query again
            y = x.copy()
            f(y)
            y[:] = np.asarray(y)[::-1].copy()
            again = build.cells(ctx.call(f"dt.{name}", f, y))
            if len(again) != n or not all(build.same_cell(a, b, numeric_loose=True) for a, b in zip(again, want[::-1])):
                raise Violation(f"dt.{name} answers for the old contents after the vector was written to in place",
                                got=again, want=want[::-1], input=vals[::-1])
            ctx.cls("queried_again_after_an_in_place_write")
        if n >= 2:
            # history: the proxy of x has been used; vectors derived from x have proxies of their own
            for label, y in (("x[::-1]", x[::-1]), ("x[1:]", x[1:]), ("x.copy()[:1]", x.copy()[:1])):
                a = build.cells(ctx.call(f"{label}.dt.{name}()", lambda: getattr(y.dt, name)()))
                b = build.cells(f(y))
                if a != b:
                    raise Violation(f"the .dt proxy of a vector derived from one whose proxy was used answers for the wrong "
                                    f"vector ({label})", proxy=a, module=b)
        for j in range(n):
            if objs[j] is not None and j < 2:
                s = ctx.call(f"dt.{name}(scalar)", f, np.asarray(x)[j])
                if not build.same_cell(build.acell(s, False), want[j], numeric_loose=True):
                    raise Violation(f"dt.{name} of a scalar differs from the one-element vector result", got=s, want=want[j])
                s = ctx.call(f"dt.{name}(datetime object)", f, objs[j])          # a Python date / datetime as the scalar
                if not build.same_cell(build.acell(s, False), want[j], numeric_loose=True):
                    raise Violation(f"dt.{name} of a Python date / datetime scalar differs from the one-element vector result",
                                    got=s, want=want[j], scalar=repr(objs[j]))
    elif op == "replace":
        kw = plan["kw"]
        def ref():
            out = []
            for j, o in enumerate(objs):
                if o is None:
                    out.append(None)
                    continue
                k = {c: (v[j] if isinstance(v, list) else v) for c, v in kw.items()}
                out.append(o.replace(**k))
            return out
        r = _try(ref)
        real_kw = {c: (np.array(v) if isinstance(v, list) else v) for c, v in kw.items()}
        g = _try(lambda: di.dt.replace(x, **real_kw))
        if r[0] == "exc":
            if g[0] != "exc":
                raise Violation("dt.replace accepts components that Python's datetime.replace rejects", kw=kw, input=vals,
                                python=r[1:], got=build.cells(g[1]))
            ctx.cls("replace_invalid_component")
        else:
            if g[0] == "exc":
                raise Violation("dt.replace raised although Python's datetime.replace succeeds", kw=kw, input=vals, exc=g[1:])
            got = build.cells(g[1])
            want = [None if o is None else build.acell(o, False) for o in r[1]]
            if len(got) != n or not all(build.same_cell(a, b) for a, b in zip(got, want)):
                raise Violation("dt.replace differs from datetime.replace element-wise", kw=kw, got=got, want=want, input=vals)
            via = ctx.call("Vector.dt.replace", lambda: x.dt.replace(**real_kw))
            if build.cells(via) != got:
                raise Violation("Vector.dt.replace differs from dt.replace")
            if all(not isinstance(v, list) for v in kw.values()):
                for j in [j for j, o in enumerate(objs) if o is not None][:2]:
                    sc = ctx.call("dt.replace(scalar)", lambda: di.dt.replace(np.asarray(x)[j], **kw))
                    if not build.same_cell(build.acell(sc, False), want[j]):
                        raise Violation("dt.replace of a scalar differs from the one-element vector result",
                                        got=build.acell(sc, False), want=want[j], kw=kw)
                    sc = ctx.call("dt.replace(datetime object)", lambda: di.dt.replace(objs[j], **kw))
                    if not build.same_cell(build.acell(sc, False), want[j]):
                        raise Violation("dt.replace of a Python date / datetime scalar differs from the one-element vector result",
                                        got=build.acell(sc, False), want=want[j], kw=kw, scalar=repr(objs[j]))
    elif op in ("to_string", "roundtrip"):
        fmt = plan["format"]
        out = ctx.call("dt.to_string", di.dt.to_string, x, fmt)
        got = build.cells(out)
        want = [None if o is None else o.strftime(fmt) for o in objs]
        want = [None if w == "" else w for w in want]
        if len(got) != n or got != want:
            raise Violation("dt.to_string differs from strftime element-wise (NaT -> missing)", got=got, want=want,
                            dtype=str(np.asarray(out).dtype))
        if n:
            na = [bool(b) for b in np.asarray(out.is_na())]
            if na != [o is None for o in objs]:
                raise Violation("dt.to_string: NaT positions are not reported missing by is_na", is_na=na,
                                dtype=str(np.asarray(out).dtype))
        via = ctx.call("Vector.dt.to_string", lambda: x.dt.to_string(fmt))
        if build.cells(via) != got:
            raise Violation("Vector.dt.to_string differs from dt.to_string")
        for j in [j for j, o in enumerate(objs) if o is not None][:2]:
            sc = ctx.call("dt.to_string(scalar)", di.dt.to_string, np.asarray(x)[j], fmt)
            if str(sc) != (want[j] or ""):
                raise Violation("dt.to_string of a scalar differs from the one-element vector result", got=sc, want=want[j])
            sc = ctx.call("dt.to_string(datetime object)", di.dt.to_string, objs[j], fmt)
            if str(sc) != (want[j] or ""):
                raise Violation("dt.to_string of a Python date / datetime scalar differs from the one-element vector result",
                                got=sc, want=want[j], scalar=repr(objs[j]))
        if op == "roundtrip":
            unambiguous = all(o is None or o.year >= 1000 for o in objs) and (
                fmt in ("%Y-%m-%d", "%d.%m.%Y") and unit == "D"
                or fmt in ("%Y-%m-%dT%H:%M:%S", TWELVE) and unit in ("D", "s")
                or fmt in ("%Y-%m-%dT%H:%M:%S.%f", TWELVE + " .%f"))
            if not unambiguous:
                ctx.excl("format does not carry every field of the unit (or year < 1000)")
                return
            svec = di.Vector(np.array([("" if w is None else w) for w in want], dtype=di.dtypes.string))
            back = ctx.call("dt.from_string", di.dt.from_string, svec, fmt)
            gb = build.cells(back)
            wb = [None if o is None else build.acell(o, False) for o in objs]
            if len(gb) != n or not all(build.same_cell(a, b) for a, b in zip(gb, wb)):
                raise Violation("from_string does not invert to_string", format=fmt, got=gb, want=wb, strings=want)
            for j in [j for j, w in enumerate(want) if w is not None][:2]:
                sc = ctx.call("dt.from_string(scalar)", di.dt.from_string, want[j], fmt)
                if not build.same_cell(build.acell(sc, False), wb[j]):
                    raise Violation("dt.from_string of a scalar differs from the one-element vector result",
                                    got=build.acell(sc, False), want=wb[j], string=want[j])
            ctx.cls("roundtrip_checked")
    if build.snap_array(x) != before:
        raise Violation("a dt function changed its argument")


def _m(x):
    return None if x is None else (x.span(), x.groups(), x.groupdict())


def _check_re(plan, ctx):
    vals, fn, pat, flags = plan["vals"], plan["fn"], plan["pattern"], plan["flags"]
    if plan.get("compiled"):
        # the pattern as an re.Pattern that carries its flags (re accepts it wherever it accepts a string)
        pat, flags = re.compile(pat, flags), 0
        ctx.cls("compiled_pattern")
    n = len(vals)
    x = di.Vector(np.array(vals, dtype=di.dtypes.string)) if n else di.Vector(np.array([], dtype=di.dtypes.string))
    before = build.snap_array(x)
    ctx.cls("re_" + fn)
    f = getattr(di.regex, fn)
    pyf = getattr(re, fn)
    if fn == "split":
        args, kwargs = (pat,), {"maxsplit": plan["maxsplit"], "flags": flags}
        call = lambda s: f(pat, s, maxsplit=plan["maxsplit"], flags=flags)
        ref1 = lambda s: pyf(pat, s, maxsplit=plan["maxsplit"], flags=flags)
        proxy = lambda: x.re.split(pat, maxsplit=plan["maxsplit"], flags=flags)
    elif fn in ("sub", "subn"):
        call = lambda s: f(pat, plan["repl"], s, count=plan["count"], flags=flags)
        ref1 = lambda s: pyf(pat, plan["repl"], s, count=plan["count"], flags=flags)
        proxy = lambda: getattr(x.re, fn)(pat, plan["repl"], count=plan["count"], flags=flags)
    else:
        call = lambda s: f(pat, s, flags=flags)
        ref1 = lambda s: pyf(pat, s, flags=flags)
        proxy = lambda: getattr(x.re, fn)(pat, flags=flags)
    r = _try(lambda: [None if v == "" else ref1(v) for v in vals])
    g = _try(lambda: call(x))
    if r[0] == "exc":
        if g[0] != "exc":
            raise Violation(f"regex.{fn} succeeds where re.{fn} raises", python=r[1:])
        ctx.cls("re_raises")
        return
    if g[0] == "exc":
        raise Violation(f"regex.{fn} raised although re.{fn} succeeds on every element", exc=g[1:], plan=plan)
    out = g[1]
    if len(out) != n:
        raise Violation(f"regex.{fn}: length differs")
    norm = (lambda y: _m(y)) if fn in ("match", "search", "fullmatch") else (lambda y: y)
    got = [norm(y) for y in list(np.asarray(out, dtype=object))]
    want = [norm(y) for y in r[1]]
    if fn == "sub":
        got = [None if y == "" and vals[j] == "" else y for j, y in enumerate(got)]
        if not out.is_string():
            raise Violation("regex.sub does not return a string vector", dtype=str(np.asarray(out).dtype))
    if got != want:
        raise Violation(f"regex.{fn} differs from re.{fn} element-wise (missing -> missing)", got=got, want=want, plan=plan)
    via = ctx.call(f"Vector.re.{fn}", proxy)          # the module function succeeded: so must the proxy
    if n >= 2:
        y = x[::-1]
        ya = list(np.asarray(y.re.findall("a"), dtype=object))
        yb = list(np.asarray(di.regex.findall("a", y), dtype=object))
        yu = [str(v) for v in np.asarray(y.str.upper())]
        if ya != yb or yu != [str(v) for v in np.strings.upper(np.asarray(y))]:
            raise Violation("the .re / .str proxy of a vector derived from one whose proxy was used answers for the wrong vector",
                            proxy=ya, module=yb)
    gv = [norm(y) for y in list(np.asarray(via, dtype=object))]
    if fn == "sub":
        gv = [None if y == "" and vals[j] == "" else y for j, y in enumerate(gv)]
    if gv != got:
        raise Violation(f"Vector.re.{fn} differs from regex.{fn}")
    for j, v in enumerate(vals[:2]):
        if v != "":
            s = call(v)
            if norm(s) != want[j]:
                raise Violation(f"regex.{fn} of a scalar differs from the one-element vector result", got=norm(s), want=want[j])
    if n:
        up = ctx.call(".str.upper", x.str.upper)
        if [str(y) for y in np.asarray(up)] != [str(y) for y in np.strings.upper(np.asarray(x))]:
            raise Violation("Vector.str.upper differs from numpy.strings.upper")
        ln = x.str.str_len()
        # the .str proxy is numpy.strings (which does not count trailing NULs): that is the reference, len() only
        # where the two agree by definition
        if [int(y) for y in np.asarray(ln)] != [int(y) for y in np.strings.str_len(np.asarray(x))]:
            raise Violation("Vector.str.str_len differs from numpy.strings.str_len", got=[int(y) for y in np.asarray(ln)])
        if not any(v.endswith("\x00") for v in vals) and [int(y) for y in np.asarray(ln)] != [len(v) for v in vals]:
            raise Violation("Vector.str.str_len differs from len()", got=[int(y) for y in np.asarray(ln)])
        sw = x.str.startswith("a")
        if [bool(y) for y in np.asarray(sw)] != [v.startswith("a") for v in vals]:
            raise Violation("Vector.str.startswith differs from str.startswith")
    if build.snap_array(x) != before:
        raise Violation("a regex function changed its argument")


def check(plan, ctx):
    if plan["area"] == "dt":
        return _check_dt(plan, ctx)
    return _check_re(plan, ctx)


KNOWN = {}
