# -*- coding: utf-8 -*-
"""C02 — row subsetting returns exactly the selected whole rows, in order."""

import random

import numpy as np
import dataiter as di
from hypothesis import strategies as st

from . import build, gen, model
from .runner import Violation

ID = "C02"
RULE = ("plan = frame (0..12 rows quick / 0..40 thorough, 1..4 columns of any kind incl. legacy <U, object, ≥50-char "
        "strings, row-id column added) + one op: filter/filter_out by mask (list, ndarray, Vector, callable) or by "
        "column=value pairs (value drawn from the column's own cells or its pool, incl. NaN/NaT), slice/slice_off by row "
        "positions (sorted-unique, arbitrary with repeats, empty) and column positions, head/tail with n in {None,0,1,"
        "nrow-1,nrow,nrow+3}, drop_na over 0..3 columns, sample(n), unique over 0..k key columns. Oracle: row-id list of the "
        "result equals the reference model's and every cell equals its source row's cell bit-exactly, dtypes and column "
        "order unchanged. Non-trivial: nrow ≥ 2 and the op keeps and drops at least one row, or unique/drop_na keys contain a "
        "missing value, a duplicate, ±inf or |x| ≥ 2**53. Distinct = plan hash.")
CASES = {"quick": 2500, "thorough": 16000}

KINDS = ["f", "i", "b", "s", "s", "u", "d", "t", "td", "o", "oi", "ob", "y", "u8", "i8", "f32", "tn"]


def _np_value(kind, v):
    """A comparison value of the column's own type for column=value filtering."""
    if kind in build.DT_UNITS:
        return np.datetime64("NaT" if v is None else v, build.DT_UNITS[kind])
    if kind == "tn":
        return np.datetime64("NaT" if v is None else v, "ns")
    if kind == "td":
        return np.timedelta64("NaT" if v is None else v, "s")
    if kind == "y":
        return v.encode("ascii")
    return v


@st.composite
def _plan(draw, max_rows):
    special = draw(st.integers(0, 11))
    if special == 0:
        # several plain-number key columns of different kinds without missing cells: integers beyond 2**53 next to
        # float keys must stay distinct (no common-dtype promotion of the key tuple)
        fp = draw(gen.frame_plan(kinds=["i", "f", "i", "i8", "u8"], max_rows=max_rows, max_cols=3, min_cols=2,
                                 prefix="c", mode="tight"))
        if draw(st.booleans()):
            # the sharpest form: an int64 key next to a float key
            fp["cols"][0]["kind"], fp["cols"][0]["vals"] = "i", draw(gen.values("i", fp["n"], mode="tight"))
            fp["cols"][1]["kind"], fp["cols"][1]["vals"] = "f", draw(gen.values("f", fp["n"], mode="tight"))
        for c in fp["cols"]:
            if c["kind"] == "f":
                c["vals"] = [1.0 if v != v else v for v in c["vals"]]
        name = "unique"
    elif special == 3:
        # key values whose hashes coincide (-1 / -2, 0 / 2**61 - 1, 1969-12-31 / 1969-12-30, inf / 314159.0 ...)
        fp = draw(gen.frame_plan(kinds=["i", "f", "d", "td", "t", "i8", "oi", "s", "s"], max_rows=max_rows, max_cols=3, min_cols=1,
                                 prefix="c", mode="twins"))
        name = draw(st.sampled_from(["unique", "unique", "unique", "drop_na", "filter_kv"]))
    elif special == 4 and draw(st.booleans()):
        # a wide frame: 64 to 90 key columns with two or three values each, rows that differ in a few (often only
        # the leading) columns; the number of possible key combinations is far beyond 2**64
        n = draw(st.integers(2, 8))
        width = draw(st.integers(64, 90))
        base = [[draw(st.integers(0, 2)) for _ in range(width)] for _ in range(draw(st.integers(1, 3)))]
        rows = []
        for _ in range(n):
            r = list(draw(st.sampled_from(base)))
            for j in draw(st.lists(st.integers(0, min(9, width - 1)), max_size=2)):
                r[j] = draw(st.integers(0, 2))
            rows.append(r)
        kinds = draw(st.sampled_from([["i"], ["i8"], ["i", "f", "i8"], ["s"]]))
        cols = []
        for j in range(width):
            kind = kinds[j % len(kinds)]
            conv = {"i": int, "i8": int, "f": float, "s": lambda x: "abc"[x]}[kind]
            cols.append({"name": f"c{j}", "kind": kind, "vals": [conv(r[j]) for r in rows]})
        fp = {"n": n, "cols": cols}
        name = "unique"
    elif special in (1, 2):
        # several key columns that can hold missing values, tight pools: rows that differ only in *where* the
        # missing value sits (and in 0 / epoch vs missing) are the norm here
        fp = draw(gen.frame_plan(kinds=["f", "d", "t", "td", "f", "s", "o"], max_rows=max_rows, max_cols=3, min_cols=2,
                                 prefix="c", mode="tight"))
        name = draw(st.sampled_from(["unique", "unique", "drop_na"]))
    else:
        fp = draw(gen.frame_plan(kinds=KINDS, max_rows=max_rows, max_cols=4, prefix="c"))
        if draw(st.integers(0, 24)) == 0:
            # a long frame (65 .. 5003 rows): beyond any size threshold a fast path might use
            fp = draw(gen.big_frame_plan(kinds=[k for k in KINDS if k != "oi"], max_cols=3, prefix="c"))
        name = draw(st.sampled_from(["filter", "filter_out", "filter_kv", "filter_out_kv", "slice", "slice_off",
                                     "head", "tail", "drop_na", "sample", "unique", "unique"]))
    n, cols = fp["n"], fp["cols"]
    op = {"name": name}
    if name in ("filter", "filter_out"):
        op["mask"] = [draw(st.booleans()) for _ in range(n)]
        op["form"] = draw(st.sampled_from(["list", "ndarray", "vector", "callable"]))
    elif name in ("filter_kv", "filter_out_kv"):
        k = draw(st.integers(1, min(2, len(cols))))
        idx = draw(st.permutations(range(len(cols))))[:k]
        pairs = []
        for j in idx:
            c = cols[j]
            # "" (the string NA sentinel) and None on object columns are ordinary == matches in NumPy;
            # the statement does not fix their semantics, so they are not used as filter values.
            # (NumPy also cuts a *scalar* compared with a string array at its first NUL: 'a\0' == 'a', 'a\0b' == 'a\0c'.)
            sentinel = lambda x: (c["kind"] in ("s", "u") and (x == "" or "\x00" in x)) or (c["kind"] in ("o", "oi", "ob") and x is None)
            cand = [v for v in c["vals"] if not sentinel(v)]
            src = st.sampled_from(cand) if cand and draw(st.integers(0, 3)) else gen.value(c["kind"], "tight")
            v = draw(src)
            if sentinel(v):
                v = {"s": "a", "u": "a", "o": "a", "oi": 1, "ob": True}[c["kind"]]
            if c["kind"] in ("i", "i8", "u8") and draw(st.integers(0, 3)) == 0:
                # a float compared with an integer column (2.5 matches nothing, 7.0 matches 7): the value as it is
                pairs.append([c["name"], draw(st.sampled_from([2.5, 0.5, -1.5, 0.0, 1.0, 7.0, 127.0])), "raw"])
                continue
            if c["kind"] == "f" and draw(st.integers(0, 5)) == 0:
                pairs.append([c["name"], draw(st.sampled_from([0, 1, -1, 2])), "raw"])
                continue
            pairs.append([c["name"], v])
        op["pairs"] = pairs
    elif name in ("slice", "slice_off"):
        how = draw(st.sampled_from(["sorted", "sorted", "arbitrary", "span", "negative", "empty", "none"]))
        if n == 0 or how == "empty":
            op["rows"] = []
        elif how == "none":
            op["rows"] = None
        elif how == "sorted":
            op["rows"] = sorted(set(draw(st.lists(st.integers(0, n - 1), max_size=n))))
        elif how == "negative" and n >= 1:
            # positions counted from the end, alone or next to ordinary ones (distinct rows, so that the order is fixed)
            pos = sorted(set(draw(st.lists(st.integers(0, n - 1), min_size=1, max_size=n))))
            op["rows"] = [r - n if draw(st.booleans()) else r for r in pos]
        elif how == "span" and n >= 3:
            # end points look like a contiguous block (last - first == len - 1), the interior repeats or is out of order
            m = draw(st.integers(3, n))
            a0 = draw(st.integers(0, n - m))
            op["rows"] = [a0] + [draw(st.integers(a0, a0 + m - 1)) for _ in range(m - 2)] + [a0 + m - 1]
        else:
            op["rows"] = draw(st.lists(st.integers(0, n - 1), max_size=n + 2))
        ncol = len(cols) + 1
        op["cols"] = draw(st.one_of(st.none(), st.lists(st.integers(0, ncol - 1), unique=True, max_size=ncol).map(sorted)))
        op["rows_form"] = draw(st.sampled_from(["list", "ndarray", "tuple", "vector"]))
        if n >= 2 and draw(st.integers(0, 4)) == 0:
            # positions given as a range object, ascending or descending, with and without reaching row 0 / the last row
            a0, a1 = draw(st.integers(0, n - 1)), draw(st.integers(0, n - 1))
            step = draw(st.sampled_from([1, 1, 2, 3]))
            r = range(a0, a1 + 1, step) if a0 <= a1 else range(a0, a1 - 1, -step)
            op["rows"], op["rows_form"], op["range"] = list(r), "range", [r.start, r.stop, r.step]
    elif name in ("head", "tail", "sample"):
        op["n"] = draw(st.sampled_from([None, 0, 1, max(n - 1, 0), n, n + 3]))
        if name == "sample":
            op["seed"] = draw(st.integers(0, 2**31 - 1))
    elif name == "drop_na":
        k = draw(st.integers(0 if len(cols) < 2 else 1, min(3, len(cols))))
        op["cols"] = [cols[j]["name"] for j in draw(st.permutations(range(len(cols))))[:k]]
    elif name == "unique":
        k = draw(st.integers(0, min(3, len(cols))))
        op["cols"] = [cols[j]["name"] for j in draw(st.permutations(range(len(cols))))[:k]]
        if special == 0 and draw(st.integers(0, 2)):
            op["cols"] = [c["name"] for c in cols]
        if len(cols) >= 64:
            op["cols"] = draw(st.sampled_from([[], [c["name"] for c in cols], [c["name"] for c in cols][::-1]]))
    draw(gen.decorate(fp))
    plan = {"frame": fp, "op": op}
    # how the receiver came to be, a module-level default, and whether the call is made twice
    plan["receiver"] = draw(st.sampled_from(["built", "built", "shallow_copy", "deep_copy", "view_rows", "derived", "sorted", "grouped"]))
    if plan["receiver"] == "sorted":
        # the receiver is the direct result of a sort by one or two columns (whatever the sort leaves on its result)
        k = len(fp["cols"])
        if k == 0:
            plan["receiver"] = "built"
        else:
            idx = draw(st.lists(st.integers(0, k - 1), min_size=1, max_size=min(2, k), unique=True))
            plan["presort"] = [[fp["cols"][j]["name"], draw(st.sampled_from([1, 1, -1]))] for j in idx]
    if draw(st.integers(0, 3)) == 0:
        plan["peek_rows"] = draw(st.sampled_from([1, 2, 5, 10, 50]))
    plan["twice"] = draw(st.integers(0, 2)) == 0
    return plan


def strategy(tier):
    return _plan(12 if tier == "quick" else 40)


def _cells_by_name(fp):
    return {c["name"]: [build.pcell(c["kind"], v) for v in c["vals"]] for c in fp["cols"]}


def _expected(plan):
    """Reference: list of kept row ids (None when only a validity predicate applies)."""
    fp, op = plan["frame"], plan["op"]
    n = fp["n"]
    name = op["name"]
    cc = _cells_by_name(fp)
    kinds = {c["name"]: c["kind"] for c in fp["cols"]}
    if name == "filter":
        return [i for i in range(n) if op["mask"][i]]
    if name == "filter_out":
        return [i for i in range(n) if not op["mask"][i]]
    if name in ("filter_kv", "filter_out_kv"):
        def match(i):
            for cn, v, *raw in op["pairs"]:
                have = cc[cn][i]
                if raw:
                    # a number of another type: plain numeric equality (all raw values are small and exact)
                    if have is None or float(have) != float(v):
                        return False
                    continue
                want = build.pcell(kinds[cn], v)
                if want is None or have is None:
                    return False
                if model.ident(want) != model.ident(have):
                    return False
            return True
        keep = [i for i in range(n) if match(i)]
        return keep if name == "filter_kv" else [i for i in range(n) if i not in keep]
    if name == "slice":
        rows = op["rows"]
        return list(range(n)) if rows is None else [r % n if r < 0 else r for r in rows]       # -1 is the last row
    if name == "slice_off":
        rows = [r % n if r < 0 else r for r in (op["rows"] or [])]
        return [i for i in range(n) if i not in set(rows)]
    peek = plan.get("peek_rows", 10)
    if name == "head":
        k = min(peek if op["n"] is None else op["n"], n)
        return list(range(k))
    if name == "tail":
        k = min(peek if op["n"] is None else op["n"], n)
        return list(range(n - k, n))
    if name == "drop_na":
        return [i for i in range(n) if not any(cc[c][i] is None for c in op["cols"])]
    if name == "unique":
        keys = op["cols"] or [c["name"] for c in fp["cols"]] + ["_rid_"]
        seen, keep = set(), []
        for i in range(n):
            k = tuple(("i", i) if c == "_rid_" else model.ident(cc[c][i]) for c in keys)
            if k not in seen:
                seen.add(k)
                keep.append(i)
        return keep
    return None


def nontrivial(plan):
    fp, op = plan["frame"], plan["op"]
    n = fp["n"]
    if n < 2:
        return False
    name = op["name"]
    if name in ("unique", "drop_na"):
        cc = _cells_by_name(fp)
        for c in op["cols"]:
            cs = cc[c]
            if any(x is None for x in cs) or len({model.ident(x) for x in cs}) < n:
                return True
            if any(isinstance(x, (int, float)) and not isinstance(x, bool) and (abs(x) >= 2**53) for x in cs):
                return True
    exp = _expected(plan)
    if exp is None:
        k = min(plan.get("peek_rows", 10) if op["n"] is None else op["n"], n)
        return 0 < k < n
    return 0 < len(set(exp)) < n


def check(plan, ctx):
    fp, op = plan["frame"], plan["op"]
    n = fp["n"]
    data = build.frame(fp)
    how = plan.get("receiver", "built")
    if how == "shallow_copy":
        data = data.copy()
    elif how == "deep_copy":
        data = data.deepcopy()
    elif how == "view_rows":
        data = data._view_rows(np.arange(n)) if hasattr(data, "_view_rows") else data     # what aggregate lambdas receive
    elif how == "derived":
        data = data.slice(rows=np.arange(n)).rename().unselect()      # the product of other operations
    elif how == "sorted" and n:
        try:
            srt = data.sort(**{cn: d for cn, d in plan["presort"]})
            order = [int(x) for x in np.asarray(srt["_rid_"])]
            fp2 = dict(fp, cols=[dict(c, vals=[c["vals"][r] for r in order]) for c in fp["cols"]])
            fp2.pop("via", None); fp2.pop("layout", None)
            srt["_rid_"] = np.arange(n)                        # fresh row ids; the key columns are not touched
            if sorted(order) == list(range(n)) and build.snap_frame(srt) == build.snap_frame(build.frame(fp2)):
                data, fp = srt, fp2
                plan = dict(plan, frame=fp2)
            else:
                how = "built"                                  # sort itself is off: C03's business
        except Exception:
            how = "built"
    if how == "grouped":
        # the frame object was marked by group_by earlier (say for an aggregate): row subsetting is about rows, not groups
        if fp["cols"]:
            data.group_by(fp["cols"][0]["name"])
        else:
            how = "built"
    if "peek_rows" in plan:
        di.DEFAULT_PEEK_ROWS = plan["peek_rows"]
    ctx.cls("receiver_" + how)
    src = build.table(data)
    before = build.snap_frame(data)
    name = op["name"]
    kinds = {c["name"]: c["kind"] for c in fp["cols"]}
    names = None
    ctx.cls("op_" + name)
    if len(plan["frame"]["cols"]) >= 64:
        ctx.cls("frame_of_64_or_more_columns")

    if name in ("filter", "filter_out"):
        m = op["mask"]
        arg = {"list": lambda: list(m), "ndarray": lambda: np.array(m, dtype=bool),
               "vector": lambda: di.Vector(np.array(m, dtype=bool)),
               "callable": lambda: (lambda x: np.array(m, dtype=bool))}[op["form"]]()
        out = ctx.call(name, getattr(data, name), arg)
    elif name in ("filter_kv", "filter_out_kv"):
        kw = {cn: (v if raw else _np_value(kinds[cn], v)) for cn, v, *raw in op["pairs"]}
        if any(len(p_) > 2 for p_ in op["pairs"]):
            ctx.cls("filter_value_of_another_numeric_type")
        meth = "filter" if name == "filter_kv" else "filter_out"
        out = ctx.call(meth + "(**pairs)", getattr(data, meth), **kw)
    elif name in ("slice", "slice_off"):
        rows = op["rows"]
        if rows is not None and op["rows_form"] == "ndarray":
            rows = np.array(rows, dtype=int)
        elif rows is not None and op["rows_form"] == "tuple":
            rows = tuple(rows)
        elif rows is not None and op["rows_form"] == "vector":
            rows = di.Vector(rows, int)
        elif rows is not None and op["rows_form"] == "range":
            rows = range(*op["range"])
            if list(rows) != op["rows"]:
                raise RuntimeError("builder: range does not reproduce the planned positions")
            ctx.cls("rows_as_range", "rows_as_descending_range" if rows.step < 0 else "rows_as_ascending_range")
        out = ctx.call(name, getattr(data, name), rows=rows, cols=op["cols"])
        allnames = list(src)
        if op["cols"] is not None:
            if name == "slice":
                names = [allnames[j] for j in op["cols"]]
            else:
                names = [x for j, x in enumerate(allnames) if j not in op["cols"]]
    elif name in ("head", "tail"):
        out = ctx.call(name, getattr(data, name), op["n"])
    elif name == "sample":
        np.random.seed(op["seed"])
        random.seed(op["seed"])
        out = ctx.call(name, data.sample, op["n"])
    elif name == "drop_na":
        out = ctx.call(name, data.drop_na, *op["cols"])
    elif name == "unique":
        out = ctx.call(name, data.unique, *op["cols"])
    else:
        raise AssertionError(name)

    if not isinstance(out, di.DataFrame):
        raise Violation(f"{name} did not return a DataFrame", type=str(type(out)))
    if plan.get("twice") and name != "sample":
        again = {"filter": lambda: data.filter(arg), "filter_out": lambda: data.filter_out(arg)}.get(name) if name in ("filter", "filter_out") else None
        if name in ("filter_kv", "filter_out_kv"):
            rev = dict(reversed(list(kw.items())))        # keyword order is irrelevant for column=value conditions
            again = lambda: getattr(data, meth)(**rev)
        elif name in ("slice", "slice_off"):
            again = lambda: getattr(data, name)(rows=rows, cols=op["cols"])
        elif name in ("head", "tail"):
            again = lambda: getattr(data, name)(op["n"])
        elif name == "drop_na":
            again = lambda: data.drop_na(*op["cols"])
        elif name == "unique":
            again = lambda: data.unique(*op["cols"])
        out2 = ctx.call(name + " (second call)", again)
        if build.snap_frame(out2) != build.snap_frame(out):
            raise Violation(f"{name}: calling it a second time on the same receiver gives a different result")
        ctx.cls("called_twice")
    exp = _expected(plan)
    if names is not None and "_rid_" not in names:
        # Column subset without the row id: compare cell-wise by position against the model rows.
        got_names = list(dict.keys(out))
        if got_names != names:
            raise Violation(f"{name}: column names/order changed", got=got_names, want=names)
        for cn in names:
            oc = build.cells(out[cn])
            want = [src[cn][1][r] for r in exp]
            if build.dtype_tag(out[cn]) != src[cn][0]:
                raise Violation(f"{name}: dtype changed", column=cn)
            if len(oc) != len(want) or not all(build.same_cell(a, b) for a, b in zip(oc, want)):
                raise Violation(f"{name}: cells differ from the selected rows", column=cn, got=oc, want=want)
        rids = exp
    else:
        rids = build.check_whole_rows(name, out, src, names=names)
        if name == "sample":
            k = min(plan.get("peek_rows", 10) if op["n"] is None else op["n"], n)
            if len(rids) != k or any(b <= a for a, b in zip(rids, rids[1:])):
                raise Violation("sample: not a strictly increasing subsequence of min(n, nrow) rows", rids=rids, want_len=k)
        elif name == "slice" and op["rows"] is not None and exp != sorted(set(exp)):
            # order of unsorted / repeated positions is not fixed by the statement: same multiset
            if sorted(rids) != sorted(exp):
                raise Violation("slice: rows differ from the given positions", rids=rids, want=exp)
        elif rids != exp:
            raise Violation(f"{name}: kept rows differ from the reference", got=rids, want=exp, op=op)

    if name in ("filter_kv", "filter_out_kv"):
        # the three condition forms must be interchangeable
        meth = "filter" if name == "filter_kv" else "filter_out"
        keep = set(_expected({"frame": fp, "op": {"name": "filter_kv", "pairs": op["pairs"]}}))
        mask = np.array([i in keep for i in range(n)], dtype=bool)
        for form, arg in (("mask", mask), ("callable", lambda x: mask)):
            alt = ctx.call(f"{meth}({form})", getattr(data, meth), arg)
            if [int(x) for x in np.asarray(alt["_rid_"])] != rids:
                raise Violation(f"{meth}: {form} form and column=value form disagree",
                                got=[int(x) for x in np.asarray(alt['_rid_'])], kv=rids)

    if name == "unique" and fp["cols"] and not plan.get("_second"):
        # no key columns named = every column is a key; without the row-id column duplicates really occur, and rows that
        # are equal as keys can still be told apart (-0.0 / 0.0, True / 1 in an object column): the FIRST one is kept
        bare = build.frame({k_: v_ for k_, v_ in fp.items() if k_ not in ("via", "layout")}, rid=None)
        cols_ = [c["name"] for c in fp["cols"]]
        seen_, keep_ = set(), []
        allcells = _cells_by_name(fp)
        for i in range(n):
            k_ = tuple(model.ident(allcells[c][i]) for c in cols_)
            if k_ not in seen_:
                seen_.add(k_); keep_.append(i)
        tab = build.table(bare)
        for label, call in (("unique()", lambda: bare.unique()), ("unique(*all columns)", lambda: bare.unique(*cols_))):
            u = ctx.call(label, call)
            for c in cols_:
                got_ = build.cells(u[c])
                want_ = [tab[c][1][r] for r in keep_]
                if len(got_) != len(want_) or not all(build.same_cell(a_, b_) for a_, b_ in zip(got_, want_)):
                    raise Violation(f"{label} on a frame without a row-id column does not keep the first row of every distinct combination",
                                    column=c, got=got_, want=want_)
        if len(keep_) < n:
            ctx.cls("unique_over_all_columns_with_duplicates")
    if build.snap_frame(data) != before:
        raise Violation(f"{name} changed its receiver")
    if name in ("drop_na", "unique") and op.get("cols") and n and not plan.get("_second"):
        # history: the same frame is edited in place (a missing key cell filled, a filled one blanked), then queried again
        fp2 = {"n": n, "cols": [dict(c, vals=list(c["vals"])) for c in fp["cols"]]}
        edited = False
        for c in fp2["cols"]:
            if c["name"] not in op["cols"] or c["kind"] not in ("f", "s", "d", "t", "td", "o", "ob", "oi"):
                continue
            miss = [j for j, v in enumerate(c["vals"]) if build.plan_isna(c["kind"], v)]
            full = [j for j, v in enumerate(c["vals"]) if not build.plan_isna(c["kind"], v)]
            if miss and full:
                c["vals"][miss[0]] = c["vals"][full[0]]
                data[c["name"]][miss[0]] = data[c["name"]][full[0]]
                edited = True
            if len(full) > 1:
                c["vals"][full[-1]] = gen.NA_VALUE[c["kind"]]
                data[c["name"]][full[-1]] = data[c["name"]].na_value
                edited = True
        if edited:
            ctx.cls("queried_again_after_in_place_edit")
            real = getattr(data, name)(*op["cols"])
            want = _expected({"frame": fp2, "op": op})
            got = [int(x) for x in np.asarray(real["_rid_"])]
            if got != want:
                raise Violation(f"after an in-place edit of the same frame: {name}: kept rows differ from the reference",
                                got=got, want=want, op=op)
    if n == 0:
        ctx.cls("empty_frame")
    if 0 < len(set(rids)) < n:
        ctx.cls("keeps_and_drops")


KNOWN = {}
