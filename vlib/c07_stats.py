# -*- coding: utf-8 -*-
"""C07 — aggregation helpers compute the documented statistic and NA policy."""

import collections
import datetime
import math

import numpy as np
import dataiter as di
from hypothesis import strategies as st

from . import build, gen, model
from .runner import Violation

ID = "C07"
RULE = ("plan = helper x kind (bool, int |x| ≤ 2**40, float, date, datetime, str; numeric-only helpers on numeric kinds) x values "
        "(0..8 quick / 0..24 thorough; floats from {NaN,-3,-0.0,0,0.5,1,2.5,1e6} + ±inf for order statistics) x group labels "
        "(0..2) x arguments (drop_na, ddof in {0,1}, index in [-n-2, n+2], q in {0,.1,.25,.5,.9,1}); every plan is evaluated in the "
        "vector form di.h(Vector) and group-wise through group_by().aggregate(). Oracle: textbook formulas in pure Python on the "
        "(optionally NA-stripped) list, documented defaults for short groups, missing propagation for numeric reductions, mode "
        "ties -> first occurrence; tolerance rel 1e-9 / abs 1e-12. Non-trivial: a non-default argument, or a single-element or "
        "all-missing group, or a mode tie, or a missing value present. Distinct = plan hash.")
CASES = {"quick": 3500, "thorough": 24000}
TOL = (1e-9, 1e-12)

ALL = ["all", "any", "count", "count_unique", "first", "last", "nth", "min", "max", "mode", "mean", "median", "quantile",
       "std", "var", "sum"]
ORD = ["count", "count_unique", "first", "last", "nth", "min", "max", "mode"]
POOLS = {
    "f": [gen.NAN, -3.0, -0.0, 0.0, 0.5, 1.0, 2.5, 1e6], "i": [0, 1, 2, -1, 7, 2**40], "b": [True, False],
    "d": [None, "2020-01-01", "2020-01-02", "1969-12-31"],
    "t": [None, "2020-01-01T00:00:00.000001", "2020-01-01T12:00:00", "1969-12-31T23:59:59"],
    "s": ["", "a", "b", "ab", "é"],
    "td": [None, 0, 1, -5, 86400],
}
TD_HELPERS = ["count", "count_unique", "first", "last", "nth", "min", "max", "mode", "sum"]
DEFAULTS = {"drop_na": {"count": False, "count_unique": False, "first": False, "last": False, "nth": False}}
MISSING = "<missing>"


@st.composite
def _plan(draw, max_len):
    # helper first (uniform over the 16), then a kind it accepts
    h = draw(st.sampled_from(ALL))
    kinds = ["f", "f", "i", "b", "d", "t", "s"] if h in ORD else ["f", "f", "i", "b"]
    if h in TD_HELPERS:
        kinds = kinds + ["td"]               # timedelta: accepted by the order statistics and by sum
    kind = draw(st.sampled_from(kinds))
    n = draw(st.one_of(st.sampled_from([0, 1, 2]), st.integers(0, max_len)))
    pool = list(POOLS[kind])
    if kind == "f" and (h in ORD or h == "median"):
        pool = pool + [gen.INF, -gen.INF]          # order statistics and the median are well defined with infinities
    narrow = draw(st.booleans())
    if narrow:
        pool = pool[:3]
    ngroups = 2
    if kind == "i" and h == "mean" and draw(st.integers(0, 2)) == 0:
        # integers whose sum does not fit into 64 bits although every value and the mean do
        pool = [2**62, 2**62 + 1, 2**62 - 5, 3]
    if kind == "f" and h == "sum" and draw(st.integers(0, 2)) == 0:
        # magnitudes that swallow small addends, and an infinity: each group's sum is that group's alone
        pool = [4e16, 1.0, 2.0, gen.INF, 0.5, 4e16]
    if kind in ("f", "i") and h in ("std", "var", "mean", "sum", "median", "quantile") and draw(st.integers(0, 4)) == 0:
        # a large common offset with a small spread: where one-pass formulas cancel catastrophically
        pool = [1e9 + 1, 1e9 + 2, 1e9 + 3, 1e9 + 3] if kind == "f" else [10**8 + 1, 10**8 + 2, 10**8 + 4]
        ngroups = draw(st.integers(0, 1))
    if h == "mode" and draw(st.integers(0, 3)):
        # tie patterns such as [1, 2, 2, 1] need few distinct values in few, larger groups
        nn = [v for v in pool if v == v and v is not None and v != ""]
        pool = nn[:2] + [v for v in pool if v not in nn][:draw(st.integers(0, 1))]
        ngroups = draw(st.integers(0, 1))
        n = max(n, draw(st.integers(4, max(4, max_len))))
    vals = [draw(st.sampled_from(pool)) for _ in range(n)]
    groups = [draw(st.integers(0, ngroups)) for _ in range(n)]
    if draw(st.integers(0, 24)) == 0:
        # a long column (65 .. 5003 elements, up to 41 groups) laid out by an arithmetic pattern over the pool:
        # beyond any size threshold a fast path might use
        n = draw(st.sampled_from(gen.BIG_SIZES + gen.HUGE_SIZES))
        a, b, c = draw(st.integers(1, 97)), draw(st.integers(0, 97)), draw(st.integers(1, 97))
        ng = draw(st.sampled_from([1, 2, 3, 7, 41]))
        vals = [pool[(i * a + (i * i // 3) * b) % len(pool)] for i in range(n)]
        groups = [(i * c + i // 5) % ng for i in range(n)]
    if n and kind in ("f", "d", "t", "s", "td") and draw(st.integers(0, 3)) == 0:
        # one whole group missing (not necessarily the first one)
        g = draw(st.sampled_from(sorted(set(groups))))
        na = {"f": gen.NAN, "s": ""}.get(kind)
        vals = [na if gg == g else v for v, gg in zip(vals, groups)]
    args = {}
    if h in ("median", "quantile", "mean", "sum", "std", "var", "min", "max") and kind == "f" and draw(st.integers(0, 3)) == 0:
        # missing values kept on purpose: groups of 3 .. 9 values with a NaN in the minority (it must still propagate)
        n = draw(st.integers(3, 9))
        vals = [draw(st.sampled_from([gen.NAN, 5.0, 13.0, 7.0, 1.0, 9.5, 2.0, 2.0])) for _ in range(n)]
        groups = [draw(st.integers(0, 1)) for _ in range(n)]
        args["drop_na"] = False
    elif h not in ("all", "any") and draw(st.integers(0, 2)):
        args["drop_na"] = draw(st.booleans())
        if draw(st.integers(0, 3)) == 0:
            args["_flagkind"] = draw(st.sampled_from(["np", "int"]))       # np.bool_ / 0-1 instead of a Python bool
    if h == "nth":
        sizes = sorted({groups.count(g) for g in set(groups)} | {n})
        edges = [e for k in sizes for e in (-k - 1, -k, -1, 0, k - 1, k)]
        args["index"] = draw(st.one_of(st.integers(-n - 2, n + 2), st.sampled_from(edges)))
    if h == "quantile":
        args["q"] = draw(st.sampled_from([0, 0.1, 0.25, 0.5, 0.9, 1]))
    if h in ("std", "var") and draw(st.booleans()):
        args["ddof"] = draw(st.sampled_from([0, 1]))
    if h in ("std", "var") and kind == "f" and args.get("drop_na") is not False and draw(st.integers(0, 3)) == 0:
        # dropped NaN next to two or more values in a group, with a chosen ddof: the divisor counts the values that are left
        n = draw(st.integers(4, 9))
        vals = [draw(st.sampled_from([gen.NAN, 5.0, 13.0, 7.0, 1.0, 9.5, gen.NAN, 2.0])) for _ in range(n)]
        groups = [draw(st.integers(0, 1)) for _ in range(n)]
        args["ddof"] = draw(st.sampled_from([0, 1, 1]))
    # further helpers on the same column as later summaries of the same aggregate call
    extra = draw(st.lists(st.sampled_from(["first", "last", "nth1", "count", "min", "max"]), max_size=2, unique=True))
    plan = {"kind": kind, "helper": h, "vals": vals, "groups": groups, "args": args, "extra": extra}
    if h in ("median", "quantile", "min", "max", "nth") and kind == "f" and draw(st.integers(0, 2 if h == "median" else 7)) == 0:
        plan.update(vals=[1.0], groups=[0], scrambled=[draw(st.sampled_from([512, 514, 1024, 1500, 2048, 2050])),
                                                       draw(st.integers(1, 2000)) * 2 + 1, draw(st.integers(0, 4000))])
        plan["args"] = {k: v for k, v in args.items() if k in ("q", "index")}
    if draw(st.integers(0, 3)) == 0:
        plan["reuse"] = draw(st.sampled_from([1, 1, 2]))
    if draw(st.integers(0, 4)) == 0:
        plan["editing_lambda_first"] = True
    return plan


def strategy(tier):
    return _plan(8 if tier == "quick" else 24)


def _isna(kind, v):
    return build.plan_isna(kind, v)


def _drop_na(h, args):
    if "drop_na" in args:
        return args["drop_na"]
    return h not in ("count", "count_unique", "first", "last", "nth", "all", "any")


def ref(h, kind, vals, args):
    """Textbook statistic on a Python list (canonical cells for dates)."""
    dn = _drop_na(h, args)
    xs = [v for v in vals if not _isna(kind, v)] if dn else list(vals)
    na_in = any(_isna(kind, v) for v in xs)
    val = lambda v: MISSING if _isna(kind, v) else build.pcell(kind, v)
    if h == "all":
        return all(bool(v) for v in vals)
    if h == "any":
        return any(bool(v) for v in vals)
    if h == "count":
        return len(xs)
    if h == "count_unique":
        nn = {model.ident(build.pcell(kind, v)) for v in xs if not _isna(kind, v)}
        return len(nn) + (1 if na_in else 0)
    if h in ("first", "last", "nth"):
        i = {"first": 0, "last": -1}.get(h, args.get("index"))
        try:
            return val(xs[i])
        except IndexError:
            return MISSING
    if h in ("min", "max"):
        if len(xs) < 1 or na_in:
            return MISSING
        cs = model.sorted_nonmissing([build.pcell(kind, v) for v in xs])
        return cs[0] if h == "min" else cs[-1]
    if h == "mode":
        if len(xs) < 1:
            return MISSING
        ids = [model.ident(build.pcell(kind, v)) for v in xs]
        c = collections.Counter(ids)
        m = max(c.values())
        for v, k in zip(xs, ids):
            if c[k] == m:
                return val(v)
    fl = [float(v) for v in xs] if kind != "td" else []
    if h == "sum":
        if na_in:
            return MISSING
        if kind == "td":
            return ("D", sum(int(v) for v in xs) * 1000000)
        return math.fsum(fl) if kind == "f" else sum(int(v) for v in xs)
    if h in ("mean", "median", "quantile"):
        if len(fl) < 1 or na_in:
            return MISSING
        if h == "mean":
            return model.t_mean(fl)
        if h == "median":
            return model.t_median(fl)              # middle element / mean of the two middle elements
        return model.t_quantile(fl, args["q"])
    if h in ("std", "var"):
        if len(fl) < 2 or na_in:
            return MISSING
        v = model.t_var(fl, args.get("ddof", 0))
        return v if h == "var" else math.sqrt(v)
    raise AssertionError(h)


def ambiguous(h, kind, vals, args):
    """Corners the statement leaves open (DESIGN C07 'Sound'); not asserted."""
    dn = _drop_na(h, args)
    nas = sum(_isna(kind, v) for v in vals)
    if h == "count_unique" and not dn and nas >= 2:
        return True
    if h == "mode" and not dn and nas >= 1:
        return True
    if h in ("min", "max") and kind == "s" and not dn and nas >= 1:
        return True
    return False


def same(r, e):
    rc = build.acell(r, True) if not isinstance(r, (list, tuple)) else r
    if isinstance(e, tuple) and e[0] == "D" and e[1] == 0 and rc in (0, ("D", 0)):
        return True                               # sum of no timedeltas is the documented default 0
    if e == MISSING or (isinstance(e, float) and e != e):
        return rc is None                          # (the mean of +inf and -inf is NaN as well)
    if rc is None:
        return False
    if isinstance(e, bool):
        return isinstance(rc, (bool, int, float)) and bool(rc) == e and float(rc) in (0.0, 1.0)
    if isinstance(e, (int, float)):
        return isinstance(rc, (int, float)) and build.same_cell(float(rc), float(e), tol=TOL)
    return rc == e


def nontrivial(plan):
    h, kind, vals, args = plan["helper"], plan["kind"], plan["vals"], plan["args"]
    if not vals:
        return False
    if args.get("drop_na") is not None or args.get("ddof") == 1 or "index" in args or "q" in args:
        return True
    if any(_isna(kind, v) for v in vals):
        return True
    by = collections.OrderedDict()
    for g, v in zip(plan["groups"], vals):
        by.setdefault(g, []).append(v)
    if any(len(vs) == 1 for vs in by.values()):
        return True
    if h == "mode":
        c = collections.Counter(repr(v) for v in vals)
        top = sorted(c.values())[-2:]
        return len(top) == 2 and top[0] == top[1]
    return False


def _flags(args):
    """the keyword arguments as passed: a flag may be a NumPy bool or 0 / 1 instead of a Python bool"""
    a = {k: v for k, v in args.items() if k != "_flagkind"}
    kind = args.get("_flagkind")
    if kind and "drop_na" in a:
        a["drop_na"] = {"np": np.bool_(a["drop_na"]), "int": int(a["drop_na"])}[kind]
    return a


def _call_vec(h, v, args):
    a = _flags(args)
    f = getattr(di, h)
    if h == "nth":
        return f(v, a.pop("index"), **a)
    if h == "quantile":
        return f(v, a.pop("q"), **a)
    return f(v, **a)


def _call_grp(h, args):
    a = _flags(args)
    f = getattr(di, h)
    if h == "nth":
        return f("x", a.pop("index"), **a)
    if h == "quantile":
        return f("x", a.pop("q"), **a)
    return f("x", **a)


def check(plan, ctx):
    if plan.get("scrambled"):
        # long columns (512 to 2 050 elements, even and odd) of all-distinct values in scrambled order, several per case:
        # order statistics that select instead of sorting go wrong on a small share of such inputs only
        n, a, c = plan["scrambled"]
        m = 4099                                     # a prime beyond every n drawn
        ctx.cls("long_scrambled_columns")
        for k in range(8):
            vals = [(((i + 1) * (a + 2 * k) + c + 31 * k) % m) / 8.0 for i in range(n - (k % 2))]
            groups = [0] * len(vals) if k < 6 else [i % 2 for i in range(len(vals))]
            _check(dict(plan, vals=vals, groups=groups, scrambled=None), ctx)
        return
    _check(plan, ctx)


def _check(plan, ctx):
    h, kind, vals, groups, args = plan["helper"], plan["kind"], plan["vals"], plan["groups"], plan["args"]
    ctx.cls("helper_" + h, "kind_" + kind)
    if not ambiguous(h, kind, vals, args):
        v = build.vec(kind, vals)
        before = build.snap_array(v)
        r = ctx.call(f"di.{h}(vector)", _call_vec, h, v, args)
        e = ref(h, kind, vals, args)
        if not same(r, e):
            raise Violation("vector form differs from the textbook statistic", helper=h, kind=kind, args=args,
                            values=vals, got=r, want=e)
        if build.snap_array(v) != before:
            raise Violation("helper changed its argument", helper=h)
        ctx.cls("vector_form")
    else:
        ctx.excl("stated ambiguity (count_unique / mode / string min-max with missing and drop_na=False)")
    if len(vals) >= 1:
        by = collections.OrderedDict()
        for g, v in zip(groups, vals):
            by.setdefault(g, []).append(v)
        if any(ambiguous(h, kind, vs, args) for vs in by.values()):
            ctx.excl("stated ambiguity in a group")
            return
        data = di.DataFrame({"g": np.array(groups, dtype=np.int64).view(di.DataFrameColumn), "x": build.column(kind, vals)})
        extras = {"first": lambda: di.first("x"), "last": lambda: di.last("x"), "nth1": lambda: di.nth("x", 1),
                  "count": lambda: di.count("x"), "min": lambda: di.min("x"), "max": lambda: di.max("x")}
        ex_args = {"first": ("first", {}), "last": ("last", {}), "nth1": ("nth", {"index": 1}), "count": ("count", {}),
                   "min": ("min", {}), "max": ("max", {})}
        later = {f"z{j}": extras[e]() for j, e in enumerate(plan.get("extra", []))}
        fobj = _call_grp(h, args)
        if plan.get("reuse"):
            # history: the very same helper object summarised another frame before (one without missing values, or
            # one with nothing but missing values): nothing it learnt there may carry over
            nn = [v for v in vals if not _isna(kind, v)]
            fill = (nn[0] if nn else POOLS[kind][-1]) if plan["reuse"] == 1 else {"f": gen.NAN, "s": ""}.get(kind)
            if plan["reuse"] == 1 or kind in ("f", "d", "t", "s", "td"):
                other = [fill if (_isna(kind, v) or plan["reuse"] == 2) else v for v in vals]
                data0 = di.DataFrame({"g": np.array(groups, dtype=np.int64).view(di.DataFrameColumn), "x": build.column(kind, other)})
                ctx.call("aggregate on another frame with the same helper object", lambda: data0.group_by("g").aggregate(y=fobj))
                ctx.cls("helper_object_reused_across_frames")
        first = {}
        if plan.get("editing_lambda_first"):
            # an ordinary summary function listed before the helper, which edits the group frame it was handed (reverses
            # the column, overwrites a cell): the helper still summarises the column's own elements
            from .c06_alias import _poke_value
            def editing(d):
                col = d["x"]
                if len(col) and col.flags.writeable:
                    col[:] = col[::-1].copy()
                    col[0] = _poke_value(col)
                return len(col)
            first = {"pre": editing}
            ctx.cls("an_editing_lambda_listed_before_the_helper")
        out = ctx.call(f"aggregate(y={h}('x'), ...)", lambda: data.group_by("g").aggregate(**first, y=fobj, **later))
        for j, e in enumerate(plan.get("extra", [])):
            if f"z{j}" not in later:
                continue
            eh, ea = ex_args[e]
            for g, r in zip([int(x) for x in np.asarray(out["g"])], list(np.asarray(out[f"z{j}"]))):
                want = ref(eh, kind, by[g], ea)
                if not same(r, want):
                    raise Violation("a later summary of the same aggregate call differs from the textbook statistic "
                                    "(state left behind by an earlier helper?)", first_helper=h, args=args, later=e,
                                    kind=kind, group=by[g], got=r, want=want)
        gs = [int(x) for x in np.asarray(out["g"])]
        if gs != sorted(by):
            raise Violation("aggregate: groups differ", got=gs, want=sorted(by))
        ys = list(np.asarray(out["y"]))
        for g, r in zip(gs, ys):
            e = ref(h, kind, by[g], args)
            if not same(r, e):
                raise Violation("group-wise form differs from the textbook statistic of the group", helper=h, kind=kind,
                                args=args, group=by[g], got=r, want=e, dtype=str(np.asarray(out["y"]).dtype))
        ctx.cls("group_form")
        if any(all(_isna(kind, v) for v in vs) for vs in by.values()):
            ctx.cls("all_missing_group")
        if any(len(vs) == 1 for vs in by.values()):
            ctx.cls("single_element_group")


KNOWN = {}
