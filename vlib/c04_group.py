# -*- coding: utf-8 -*-
"""C04 — grouping partitions the rows; one summary row per distinct key."""

import numpy as np
import dataiter as di
from hypothesis import strategies as st

from . import build, gen, model
from .runner import Violation

ID = "C04"
RULE = ("plan = frame (0..12 rows quick / 0..40 thorough) with 1..3 group columns of any kind (missing values, ±0.0, ±inf, "
        "2**53 neighbours, ≥50-char strings, legacy <U, object) in random row order + an int and a float value column + row "
        "ids. Every plan runs aggregate (count/first/last/sum/mean helpers and lambdas returning nrow, the group's row ids, "
        "helper(column)), count, split and grouped modify. Oracle: dict grouping (missing ≡ missing, -0.0 ≡ 0.0) with groups "
        "ordered by the ascending comparator (missing last); summaries recomputed from exactly the group's rows in original "
        "order; helper ≡ lambda. Non-trivial: ≥ 2 groups with one of size ≥ 2 whose rows are not contiguous in the input, or a "
        "missing/±inf/huge key, or ≥ 2 group columns. Distinct = plan hash.")
CASES = {"quick": 1500, "thorough": 8000}

KEY_KINDS = ["f", "i", "b", "s", "s", "u", "d", "t", "td", "o", "oi", "ob", "u8", "i8", "i32", "f32", "tn"]
HELPERS = ["all", "any", "count", "count_unique", "first", "last", "nth", "min", "max", "mode", "mean", "median", "quantile",
           "std", "var", "sum"]


def _helper_pair(hx):
    """(shorthand helper for aggregate, lambda applying the same helper to the group's column)"""
    f = getattr(di, hx["helper"])
    a = dict(hx["args"])
    pos = []
    if hx["helper"] == "nth":
        pos = [a.pop("index")]
    if hx["helper"] == "quantile":
        pos = [a.pop("q")]
    col = hx["col"]
    return f(col, *pos, **a), (lambda g: f(g[col], *pos, **a))


@st.composite
def _plan(draw, max_rows):
    n = draw(gen.nrows(max_rows))
    nk = draw(st.sampled_from([1, 1, 2, 2, 3]))
    big = draw(st.integers(0, 9)) == 0
    if big:
        # > 16 rows grouped by one key without missing cells: where an unstable sort inside grouping shows
        # sizes beyond any plausible "fast path above N rows" threshold too (both tiers)
        n = draw(st.one_of(st.integers(17, 40), st.integers(17, 40), st.sampled_from(gen.BIG_SIZES), st.sampled_from(gen.HUGE_SIZES[:3])))
        nk = 1
    cols = []
    intkeys = not big and draw(st.integers(0, 11)) == 0
    if intkeys:
        # two or three integer group columns whose value ranges are huge (0 and 2**53 side by side): whatever packs the
        # columns into one number overflows, and distinct combinations must still be distinct groups
        nk = draw(st.sampled_from([2, 2, 3]))
    for j in range(nk):
        kind = draw(st.sampled_from(KEY_KINDS))
        mode = "tight" if big else draw(st.sampled_from(["tight", "tight", "tight", "pool", "twins"]))
        if intkeys:
            cols.append({"name": f"g{j}", "kind": "i", "vals": [draw(st.sampled_from([0, 1, -1, 2**53, -2**53, 2**53 + 1, 2**60])) for _ in range(n)]})
            continue
        vals = draw(gen.big_values(kind, n)) if n > 40 else draw(gen.values(kind, n, mode=mode, na="none" if big else None))
        cols.append({"name": f"g{j}", "kind": kind, "vals": vals})
    if n > 40:
        cols.append({"name": "xi", "kind": "i", "vals": [(i * 7919) % 2001 - 1000 for i in range(n)]})
        cols.append({"name": "xf", "kind": "f", "vals": [[gen.NAN, -3.0, -0.0, 0.0, 0.5, 1.0, 2.5, 1e6][(i * 5 + i // 7) % 8] for i in range(n)]})
    else:
        xi_pool = st.integers(-1000, 1000) if draw(st.integers(0, 3)) else st.sampled_from([2**53 + 1, 2**53 + 3, 1, 2, -2**53 - 1, 2**55 + 1])
        cols.append({"name": "xi", "kind": "i", "vals": [draw(xi_pool) for _ in range(n)]})       # now and then integers no float64 holds exactly
        cols.append({"name": "xf", "kind": "f", "vals": [draw(st.sampled_from([gen.NAN, -3.0, -0.0, 0.0, 0.5, 1.0, 2.5, 1e6])) for _ in range(n)]})
    # further value columns whose missing value is not NaN: object booleans with None, strings with "", dates with NaT
    pat = lambda pool: [pool[(i * 7 + i // 3) % len(pool)] for i in range(n)] if n > 40 else [draw(st.sampled_from(pool)) for _ in range(n)]
    cols.append({"name": "xo", "kind": "ob", "vals": pat([None, True, False, True])})
    cols.append({"name": "xs", "kind": "s", "vals": pat(["", "a", "b", "ab"])})
    cols.append({"name": "xd", "kind": "d", "vals": pat([None, "2020-01-01", "2020-01-02", "1969-12-31"])})
    h = draw(st.sampled_from(HELPERS))
    choices = ["xi", "xf"]
    if h in ("count", "count_unique", "first", "last", "nth", "mode"):
        choices = ["xi", "xf", "xo", "xs", "xd"]
    elif h in ("min", "max"):
        choices = ["xi", "xf", "xs", "xd"]
    hx = {"helper": h, "col": draw(st.sampled_from(choices)), "args": {}}
    if h not in ("all", "any") and draw(st.booleans()):
        hx["args"]["drop_na"] = draw(st.booleans())
    if h == "nth":
        hx["args"]["index"] = draw(st.integers(-3, 3))
    if h == "quantile":
        hx["args"]["q"] = draw(st.sampled_from([0, 0.25, 0.5, 0.9, 1]))
    if h in ("std", "var") and draw(st.booleans()):
        hx["args"]["ddof"] = draw(st.sampled_from([0, 1, 2, 3]))
    plan = {"frame": {"n": n, "cols": cols}, "by": [f"g{j}" for j in draw(st.permutations(range(nk)))], "hx": hx}
    draw(gen.decorate(plan["frame"]))
    if plan["frame"].get("via") == "marked_by_group_by":
        del plan["frame"]["via"]              # this check sets and clears marks itself (see stale_mark)
    if 2 <= n <= 40 and draw(st.integers(0, 5)) == 0:
        # the receiver is the direct result of a sort by exactly the group columns, in drawn directions: the rows are
        # laid out in that order already (reference sort), so the sort is the identity on positions and the plan stands
        dirs = [draw(st.sampled_from([1, -1, -1])) for _ in plan["by"]]
        byname = {c["name"]: c for c in cols}
        kc = [[build.pcell(byname[g]["kind"], v) for v in byname[g]["vals"]] for g in plan["by"]]
        order = model.row_orders(kc, dirs)[draw(st.integers(0, 1)) % len(model.row_orders(kc, dirs))]
        for c in cols:
            c["vals"] = [c["vals"][r] for r in order]
        plan["presort"] = dirs
        plan["frame"].pop("via", None)
    if draw(st.integers(0, 3)) == 0:
        plan["stale_mark"] = True
    if n and n <= 40 and draw(st.integers(0, 3)) == 0:
        edits = []
        for _ in range(draw(st.integers(1, 3))):
            j = draw(st.integers(0, nk - 1))
            kind = next(c["kind"] for c in cols if c["name"] == plan["by"][j])
            if kind == "u":
                continue
            # another value of the column (moves the row to another group) or a fresh one from the pool
            colvals = next(c["vals"] for c in cols if c["name"] == plan["by"][j])
            edits.append([j, draw(st.integers(0, n - 1)), draw(st.one_of(st.sampled_from(colvals), gen.value(kind, "tight")))])
        if edits:
            plan["edits"] = edits
    return plan


def strategy(tier):
    return _plan(12 if tier == "quick" else 40)


def _keycells(plan):
    byname = {c["name"]: c for c in plan["frame"]["cols"]}
    return [[build.pcell(byname[g]["kind"], v) for v in byname[g]["vals"]] for g in plan["by"]]


def _groups_sorted(plan):
    kc = _keycells(plan)
    n = plan["frame"]["n"]
    grp = model.groups(kc) if n else {}
    reps = [rows[0] for rows in grp.values()]
    # order representatives ascending with the C03 comparator (missing last)
    sub = [[c[r] for r in reps] for c in kc]
    order = model.row_orders(sub, [1] * len(kc))[0] if reps else []
    keys = list(grp)
    return [(keys[i], grp[keys[i]]) for i in order], kc


def nontrivial(plan):
    gs, kc = _groups_sorted(plan)
    if len(plan["by"]) >= 2 and plan["frame"]["n"] >= 2:
        return True
    for col in kc:
        for c in col:
            if c is None:
                return True
            if isinstance(c, float) and (c in (float("inf"), float("-inf")) or abs(c) >= 2**53):
                return True
            if isinstance(c, int) and not isinstance(c, bool) and abs(c) >= 2**53:
                return True
    if len(gs) >= 2:
        for _, rows in gs:
            if len(rows) >= 2 and rows[-1] - rows[0] + 1 > len(rows):
                return True
    return False


def _ints(a):
    return [int(x) for x in np.asarray(a)]


_PHASE = [""]


class Violation(Violation):                    # prefixes the phase to every message of this module
    def __init__(self, what, **detail):
        super().__init__(_PHASE[0] + what, **detail)


def check(plan, ctx):
    data = build.frame(plan["frame"])
    if plan.get("presort"):
        try:
            srt = data.sort(**dict(zip(plan["by"], plan["presort"])))
            if build.snap_frame(srt) == build.snap_frame(data):
                data = srt                      # same table, but the direct result of a sort (whatever sort leaves on it)
                ctx.cls("receiver_is_the_result_of_a_sort_by_the_group_columns",
                        "presort_descending" if -1 in plan["presort"] else "presort_ascending")
        except Exception:
            pass
    _check_once(plan, data, ctx)
    if plan.get("edits") and plan["frame"]["n"]:
        # history: cells of a group column of the same frame object are overwritten in place, then every grouped
        # operation runs again: whatever was remembered about the old partition is out of date
        p2 = dict(plan, frame={"n": plan["frame"]["n"], "cols": [dict(c, vals=list(c["vals"])) for c in plan["frame"]["cols"]]})
        for j, row, v in plan["edits"]:
            c = next(c for c in p2["frame"]["cols"] if c["name"] == plan["by"][j % len(plan["by"])])
            row %= p2["frame"]["n"]
            c["vals"][row] = v if v is not None or c["kind"] not in ("f", "f32", "s", "u", "i", "b", "i8", "u8", "i32") else c["vals"][0]
            data[c["name"]][row] = build.np_array(c["kind"], [c["vals"][row]])[0]
        ctx.cls("grouped_again_after_in_place_edit_of_a_group_column")
        _PHASE[0] = "after an in-place edit of a group column: "
        try:
            _check_once(p2, data, ctx)
        finally:
            _PHASE[0] = ""


def _check_once(plan, data, ctx):
    fp = plan["frame"]
    n = fp["n"]
    by = plan["by"]
    src = build.table(data)
    before = build.snap_frame(data)
    gs, kc = _groups_sorted(plan)
    xi = src["xi"][1]
    xf = src["xf"][1]
    ctx.cls(f"groups_{min(len(gs), 4)}{'+' if len(gs) > 4 else ''}", f"by_{len(by)}")

    # ---- aggregate ----
    aggs = dict(n=di.count(), fi=di.first("xi"), la=di.last("xi"), su=di.sum("xi"), me=di.mean("xf"))
    if n > 0:
        aggs.update(nl=lambda g: g.nrow,
                    ids=lambda g: ",".join(str(int(r)) for r in g["_rid_"]),
                    ml=lambda g: di.mean(g["xf"]),
                    sl=lambda g: di.sum(g["xi"]))
    stat = ctx.call("aggregate", lambda: data.group_by(*by).aggregate(**aggs))
    if tuple(getattr(data, "_group_colnames", ())) != tuple(by):
        raise Violation("group_by did not record the group columns on the receiver")
    stat2 = ctx.call("aggregate (second call on the grouped receiver)", lambda: data.aggregate(**aggs))
    if build.snap_frame(stat2) != build.snap_frame(stat):
        raise Violation("aggregating the same grouped receiver a second time gives a different result")
    data._group_colnames = ()
    if build.snap_frame(data) != before:
        raise Violation("aggregate changed its receiver")
    names = list(dict.keys(stat))
    if names != list(by) + list(aggs):
        raise Violation("aggregate: columns differ", got=names, want=list(by) + list(aggs))
    if stat.nrow != len(gs):
        raise Violation("aggregate: not one row per distinct key combination", got=stat.nrow, want=len(gs),
                        keys=[k for k, _ in gs])
    for j, g in enumerate(by):
        oc = build.cells(stat[g])
        want = [kc[j][rows[0]] for _, rows in gs]
        if build.dtype_tag(stat[g]) != src[g][0]:
            raise Violation("aggregate: group column dtype changed", column=g, got=build.dtype_tag(stat[g]), want=src[g][0])
        if not all(build.same_cell(a, b, numeric_loose=True) for a, b in zip(oc, want)):
            raise Violation("aggregate: group keys not the distinct keys in ascending order (missing last)",
                            column=g, got=oc, want=want)
    if _ints(stat["n"]) != [len(rows) for _, rows in gs]:
        raise Violation("aggregate: count() differs from the group sizes", got=_ints(stat["n"]), want=[len(r) for _, r in gs])
    if sum(_ints(stat["n"])) != n:
        raise Violation("aggregate: group sizes do not sum to nrow")
    if n > 0:
        if _ints(stat["nl"]) != [len(rows) for _, rows in gs]:
            raise Violation("aggregate: lambda nrow differs from the group sizes", got=_ints(stat["nl"]))
        ids = [str(x) for x in np.asarray(stat["ids"])]
        want = [",".join(str(r) for r in rows) for _, rows in gs]
        if ids != want:
            raise Violation("aggregate: a summary was not computed from exactly its group's rows in original order",
                            got=ids, want=want)
        if _ints(stat["fi"]) != [xi[rows[0]] for _, rows in gs]:
            raise Violation("aggregate: first() is not the group's first row", got=_ints(stat["fi"]))
        if _ints(stat["la"]) != [xi[rows[-1]] for _, rows in gs]:
            raise Violation("aggregate: last() is not the group's last row", got=_ints(stat["la"]))
        sums = [sum(xi[r] for r in rows) for _, rows in gs]
        if any(abs(s) >= 2**63 for s in sums):
            ctx.excl("a group's integer sum does not fit into 64 bits: what sum() gives then is not fixed by the statement")
        elif _ints(stat["su"]) != sums:
            raise Violation("aggregate: sum() differs from the group's sum", got=_ints(stat["su"]))
        if _ints(stat["sl"]) != _ints(stat["su"]):
            raise Violation("aggregate: sum('xi') differs from lambda g: sum(g.xi)")
        a, b = build.cells(stat["me"]), build.cells(stat["ml"])
        if not all(build.same_cell(x, y, tol=(1e-9, 1e-12)) for x, y in zip(a, b)):
            raise Violation("aggregate: mean('xf') differs from lambda g: mean(g.xf)", helper=a, lam=b)

    # ---- shorthand helper == lambda applying the helper to the group's column (every helper) ----
    if n > 0 and "hx" in plan:
        hx = plan["hx"]
        short, lam = _helper_pair(hx)
        both = ctx.call("aggregate(helper, lambda)", lambda: data.group_by(*by).aggregate(h=short, l=lam))
        data._group_colnames = ()
        a, b = build.cells(both["h"]), build.cells(both["l"])
        ambiguous = hx["helper"] in ("count_unique", "mode") and hx["args"].get("drop_na") is not True and hx["col"] != "xi"
        if not ambiguous and not all(build.same_cell(x, y, tol=(1e-9, 1e-12)) for x, y in zip(a, b)):
            raise Violation("a shorthand helper differs from a lambda applying that helper to the group's column",
                            helper=hx, shorthand=a, lam=b)
        ctx.cls("helper_vs_lambda_" + hx["helper"])

    # ---- count ----
    cnt = ctx.call("count", lambda: data.count(*by))
    if list(dict.keys(cnt)) != list(by) + ["n"] or _ints(cnt["n"]) != [len(rows) for _, rows in gs]:
        raise Violation("count differs from aggregate(n=count())", got=_ints(cnt["n"]) if "n" in cnt else None)
    for g in by:
        if not all(build.same_cell(x, y, numeric_loose=True) for x, y in zip(build.cells(cnt[g]), build.cells(stat[g]))):
            raise Violation("count: keys differ from aggregate's", column=g)
    if tuple(getattr(data, "_group_colnames", ())) != ():
        raise Violation("count left the receiver grouped")

    # ---- split ----
    if plan.get("stale_mark") and n:
        # the frame object was marked by group_by on another column earlier: explicit arguments are what counts
        data.group_by("xi")
        ctx.cls("split_and_count_on_a_frame_marked_by_another_group_by")
        try:
            cnt2 = ctx.call("count on a marked frame", lambda: data.count(*by))
            if _ints(cnt2["n"]) != [len(rows) for _, rows in gs]:
                raise Violation("count(*by) on a frame marked by another group_by differs", got=_ints(cnt2["n"]))
            parts = ctx.call("split", lambda: data.split(*by))
        finally:
            data._group_colnames = ()
    else:
        parts = ctx.call("split", lambda: data.split(*by))
    parts = [_ints(p) for p in parts]
    flat = [r for p in parts for r in p]
    if n > 0:
        if sorted(flat) != list(range(n)):
            raise Violation("split: index sets are not a disjoint cover of the rows", got=parts)
        if parts != [rows for _, rows in gs]:
            raise Violation("split: groups differ from the reference partition (order, membership or row order)",
                            got=parts, want=[rows for _, rows in gs])
    elif flat:
        raise Violation("split of an empty frame returned rows", got=parts)

    # ---- grouped modify ----
    if n > 0:
        mod = ctx.call("grouped modify", lambda: data.group_by(*by).modify(
            gn=lambda g: g.nrow, pos=lambda g: np.arange(g.nrow), first=lambda g: g["_rid_"][0],
            # a function whose result type depends on the group: an integer for one-row groups, a float otherwise
            mixed=lambda g: g["_rid_"][0] if g.nrow == 1 else g["_rid_"].mean() + 0.25))
        data._group_colnames = ()
        rid = build.check_whole_rows("grouped modify", {k: mod[k] for k in src}, src)
        if rid != list(range(n)):
            raise Violation("grouped modify changed the row order", got=rid)
        size, pos, first, rows_of = {}, {}, {}, {}
        for _, rows in gs:
            for p, r in enumerate(rows):
                size[r], pos[r], first[r], rows_of[r] = len(rows), p, rows[0], rows
        if _ints(mod["gn"]) != [size[r] for r in range(n)]:
            raise Violation("grouped modify: group-wise scalar not aligned with the original rows", got=_ints(mod["gn"]))
        if _ints(mod["pos"]) != [pos[r] for r in range(n)]:
            raise Violation("grouped modify: group-wise vector not aligned with the original rows", got=_ints(mod["pos"]),
                            want=[pos[r] for r in range(n)])
        if _ints(mod["first"]) != [first[r] for r in range(n)]:
            raise Violation("grouped modify: groups not taken in original order", got=_ints(mod["first"]))
        want = [float(r) if size[r] == 1 else sum(g) / len(g) + 0.25 for r in range(n) for g in [rows_of[r]]]
        got = [float(x) for x in np.asarray(mod["mixed"])]
        if got != want:
            raise Violation("grouped modify: results of differing types per group are not the group-wise values", got=got, want=want)
        if any(size[r] > 1 for r in range(n)) and any(size[r] == 1 for r in range(n)):
            ctx.cls("modify_mixed_result_types")
    if build.snap_frame(data) != before:
        raise Violation("grouped operations changed the receiver")


KNOWN = {}
