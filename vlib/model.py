# -*- coding: utf-8 -*-
"""
Reference model on plain Python values (canonical cells of build.py; missing = None).
Deliberately slow and obvious: comparator sort, dict grouping, nested-loop joins.
"""

import functools
import itertools
import math


def cmp_cells(a, b):
    """Total preorder on two non-missing canonical cells of one column."""
    if isinstance(a, tuple):
        a, b = a[1], b[1]
    if isinstance(a, bool) or isinstance(b, bool):
        a, b = int(a), int(b)
    return (a > b) - (a < b)


def ident(c):
    """Hashable identity of a cell for grouping / uniqueness: missing == missing, -0.0 == 0.0."""
    if c is None:
        return ("NA",)
    if isinstance(c, float):
        return ("f", 0.0 if c == 0 else c)
    if isinstance(c, bool):
        return ("b", c)
    if isinstance(c, int):
        return ("i", c)
    return ("v", c)


def sorted_nonmissing(cs, dir=1):
    nn = [c for c in cs if c is not None]
    out = sorted(nn, key=functools.cmp_to_key(cmp_cells))
    if dir < 0:
        out = sorted(nn, key=functools.cmp_to_key(lambda a, b: -cmp_cells(a, b)))
    return out


def row_orders(cols, dirs):
    """
    All reference orders (lists of row ids) of a stable multi-key sort: missing last for an
    ascending key; first or last (one choice per key for the whole call) for a descending key.
    cols: list of canonical-cell lists, dirs: list of 1/-1.
    """
    n = len(cols[0]) if cols else 0
    desc = [j for j, d in enumerate(dirs) if d < 0 and any(c is None for c in cols[j])]     # the choice only exists where a cell is missing
    orders = []
    for choice in itertools.product([False, True], repeat=len(desc)):
        na_first = dict(zip(desc, choice))

        def cmp(r1, r2):
            for j, d in enumerate(dirs):
                a, b = cols[j][r1], cols[j][r2]
                if a is None or b is None:
                    if a is None and b is None:
                        continue
                    first = na_first.get(j, False)
                    if a is None:
                        return -1 if first else 1
                    return 1 if first else -1
                c = cmp_cells(a, b) * d
                if c:
                    return c
            return 0

        o = sorted(range(n), key=functools.cmp_to_key(cmp))
        if o not in orders:
            orders.append(o)
    return orders


def groups(keycols):
    """dict: key identity tuple -> list of row ids in original order (insertion = first seen)."""
    n = len(keycols[0]) if keycols else 0
    out = {}
    for r in range(n):
        k = tuple(ident(c[r]) for c in keycols)
        out.setdefault(k, []).append(r)
    return out


def first_match(lkeys, rkeys):
    """
    For each left row the lowest right row whose key cells are all non-missing and equal.
    lkeys / rkeys: list of key columns (canonical cells). Returns list of int or None.
    """
    nl = len(lkeys[0]) if lkeys else 0
    nr = len(rkeys[0]) if rkeys else 0
    first = {}                                  # key identity -> lowest right row (rows with a missing key cell never match)
    for j in range(nr):
        rj = [c[j] for c in rkeys]
        if all(y is not None for y in rj):
            first.setdefault(tuple(ident(y) for y in rj), j)
    out = []
    for i in range(nl):
        li = [c[i] for c in lkeys]
        out.append(first.get(tuple(ident(x) for x in li)) if all(x is not None for x in li) else None)
    return out


# -- textbook statistics on Python floats ---------------------------------------------------

def t_mean(xs):
    return math.fsum(xs) / len(xs)


def t_var(xs, ddof=0):
    m = t_mean(xs)
    return math.fsum((x - m) ** 2 for x in xs) / (len(xs) - ddof)


def t_quantile(xs, q):
    """Linear interpolation between order statistics (R type 7, NumPy's default)."""
    s = sorted(xs)
    h = (len(s) - 1) * q
    lo = math.floor(h)
    hi = math.ceil(h)
    if lo == hi:
        return float(s[lo])
    return s[lo] + (s[hi] - s[lo]) * (h - lo)


def t_median(xs):
    s = sorted(xs)
    n = len(s)
    if n % 2:
        return float(s[n // 2])
    return (s[n // 2 - 1] + s[n // 2]) / 2
