# -*- coding: utf-8 -*-
"""C10 — Vector construction and the missing-value model are coherent."""

import datetime
import fractions
import unittest.mock

import numpy as np
import dataiter as di
from hypothesis import strategies as st

from . import build
from .runner import Violation

ID = "C10"
RULE = ("plan = sequence of 0..8 items (0..20 thorough) in one of four classes — H: one kind, Python scalars (bool, int, float, str, "
        "date, datetime, timedelta, bytes, hashable objects); N: one kind, one NumPy scalar type; HN: one kind, Python and "
        "NumPy scalars mixed; M: two kinds from the pairs int+float, bool+int, str+{int,float,bool,date}, date+datetime — with "
        "None / NaN (Python float, np.float64, np.float32) interleaved at any position incl. first and all; container list / "
        "tuple / generator; with or without an explicit dtype able to hold the data. Oracle: by-kind expectation of dtype class, "
        "NA positions, tolist, rebuild-from-tolist, equal as an equivalence relation on (v, exact dtype variant, one-cell "
        "change), na_dtype/na_value, drop_na, replace_na. Non-trivial: length ≥ 2 and (a missing value, or a NumPy scalar, or "
        "an explicit dtype). Distinct = plan hash.")
CASES = {"quick": 3000, "thorough": 24000}
FUZZ_RUNS = {"thorough": 30000}     # coverage-guided leg, 8 processes (vlib/fuzz.py)

D, DT = datetime.date, datetime.datetime

VALUES = {
    "int": [0, 1, -1, 7, 2**31 - 1, -2**31, 2**53 + 1, -2**63, 2**63 - 1],
    "float": [0.0, -0.0, 1.5, float("inf"), -1e300, 2.0**53],
    "bool": [True, False],
    "str": ["a", "b", "é", "x" * 60, " ", "日本", "", "\x00", "\x00\x00"],       # a string of NUL characters is not the empty string
    "bigint": [2**64, 2**70, -2**64, -2**63 - 1],         # Python integers no 64-bit dtype holds
    "date": ["2020-01-01", "1969-12-31", "0001-01-01", "9999-12-31", "2024-02-29"],
    "dtime": ["2020-01-01T01:02:03.000004", "1969-12-31T23:59:59", "0001-01-01T00:00:00"],
    "tdelta": [0, 1, -5, 86400],
    "bytes": ["a", "", "bc"],
    "obj": [[1, 2], [3, 4], [-1, 3], ["ANY"]],      # fractions.Fraction(num, den): hashable, no NumPy shape inference;
                                                      # ["ANY"]: unittest.mock.ANY, an object that compares equal to everything (also to None)
}
NP_TAGS = {
    "int": ["np_i64", "np_i32"], "float": ["np_f64", "np_f32"], "bool": ["np_b"], "str": ["np_s"],
    "date": ["np_d"], "dtime": ["np_us"], "tdelta": ["np_td"],
}
PAIRS = [["int", "float"], ["bool", "int"], ["str", "int"], ["str", "float"], ["str", "bool"], ["str", "date"],
         ["date", "dtime"]]
DTYPES = {  # explicit dtypes able to hold the data of a kind
    "int": ["float", "int", "object", "str"], "float": ["float", "object"], "bool": ["object", "bool"],
    "str": ["str", "object"], "date": ["datetime64[D]", "object", "datetime64[us]"],
    "dtime": ["datetime64[us]", "object"], "tdelta": ["timedelta64[s]"], "bytes": [], "obj": ["object"],
    "bigint": ["object"],
}


def mk(kind, tag, v):
    if kind == "date":
        py = D.fromisoformat(v)
    elif kind == "dtime":
        py = DT.fromisoformat(v)
    elif kind == "tdelta":
        py = datetime.timedelta(seconds=v)
    elif kind == "bytes":
        py = v.encode("ascii")
    elif kind == "obj":
        py = unittest.mock.ANY if v == ["ANY"] else fractions.Fraction(v[0], v[1])
    else:
        py = v
    if tag == "py":
        return py
    return {"np_i64": lambda: np.int64(v), "np_i32": lambda: np.int32(v), "np_f64": lambda: np.float64(v),
            "np_f32": lambda: np.float32(v), "np_b": lambda: np.bool_(v), "np_s": lambda: np.str_(v),
            "np_d": lambda: np.datetime64(v, "D"), "np_us": lambda: np.datetime64(v, "us"),
            "np_td": lambda: np.timedelta64(v, "s")}[tag]()


def mk_dtype(name):
    return {"float": float, "int": int, "object": object, "str": str, "bool": bool}.get(name) or np.dtype(name)


@st.composite
def _plan(draw, max_len):
    cls = draw(st.sampled_from(["H", "H", "N", "HN", "M", "M"]))
    if cls == "M":
        kinds = draw(st.sampled_from(PAIRS))
    elif cls == "H":
        kinds = [draw(st.sampled_from(sorted(VALUES)))]
    else:
        kinds = [draw(st.sampled_from(sorted(NP_TAGS)))]
    n = draw(st.one_of(st.sampled_from([0, 1, 2]), st.integers(0, max_len)))
    nptag = {k: draw(st.sampled_from(NP_TAGS[k])) for k in kinds if k in NP_TAGS}
    na_rate = draw(st.sampled_from([0, 2, 2, 5, 10]))
    items = []
    for _ in range(n):
        r = draw(st.integers(0, 9))
        if r < na_rate:
            items.append(draw(st.sampled_from([["none"], ["none"], ["nan", "py"], ["nan", "np_f64"], ["nan", "np_f32"]])))
            continue
        k = draw(st.sampled_from(kinds))
        if cls in ("H", "M") or k not in nptag:
            tag = "py"
        elif cls == "N":
            tag = nptag[k]
        else:
            tag = draw(st.sampled_from(["py", nptag[k]]))
        v = draw(st.sampled_from(VALUES[k]))
        if tag == "np_i32" and not -2**31 <= v < 2**31:
            v = 7
        if tag == "np_s" and v.endswith("\x00"):
            tag = "py"               # a numpy.str_ scalar cannot hold a trailing NUL itself (np.str_("\0") == "")
        if tag == "np_f32":
            v = draw(st.sampled_from([0.0, 1.5, -2.0]))
        items.append([k, tag, v])
    dtype = None
    if cls != "M" and draw(st.integers(0, 3)) == 0 and DTYPES[kinds[0]]:
        dtype = draw(st.sampled_from(DTYPES[kinds[0]]))
    plan = {"cls": cls, "kinds": kinds, "items": items, "dtype": dtype,
            "container": draw(st.sampled_from(["list", "list", "tuple", "gen"]))}
    if draw(st.integers(0, 11)) == 0:
        # a long sequence: one element repeated about a thousand times in front of the drawn items, so that whatever
        # decides by looking at the first N elements only (type sniffing) is out of date further down
        first = next((i for i in items if not _missing_in(i)), None)
        head = draw(st.sampled_from([first, first, ["none"]])) or ["none"]
        plan["head"] = [head, draw(st.sampled_from([100, 999, 1000, 1001, 1024, 2049, 5003]))]
    return plan


def strategy(tier):
    return _plan(8 if tier == "quick" else 20)


def _missing_in(it):
    return it[0] in ("none", "nan")


def nontrivial(plan):
    items = plan["items"]
    if len(items) < 2:
        return False
    return (any(_missing_in(i) for i in items) or plan["dtype"] is not None
            or any(len(i) == 3 and i[1] != "py" for i in items))


def _real(it):
    if it[0] == "none":
        return None
    if it[0] == "nan":
        return {"py": float("nan"), "np_f64": np.float64("nan"), "np_f32": np.float32("nan")}[it[1]]
    return mk(*it)


def _canon(it, stringish=True):
    """Canonical cell (build.acell space) of a non-missing input item."""
    k, tag, v = it
    x = mk(k, "py", v)
    if k == "obj":
        return x
    if k == "bytes":
        return x
    return build.acell(x, stringish)


def check(plan, ctx):
    if plan.get("head"):
        plan = dict(plan, items=[plan["head"][0]] * plan["head"][1] + plan["items"])
        ctx.cls("long_sequence", "long_sequence_with_missing_head" if plan["head"][0][0] in ("none", "nan") else "long_sequence_with_value_head")
    items, kinds, cls = plan["items"], plan["kinds"], plan["cls"]
    n = len(items)
    vals = [_real(i) for i in items]
    seq = vals if plan["container"] == "list" else tuple(vals) if plan["container"] == "tuple" else (x for x in vals)
    dtype = None if plan["dtype"] is None else mk_dtype(plan["dtype"])
    present = sorted({i[0] for i in items if not _missing_in(i)})
    any_missing = any(_missing_in(i) for i in items)
    ctx.cls("class_" + cls, "dtype_given" if dtype is not None else "dtype_inferred")
    if plan["dtype"] == "int" and any(i[0] == "int" and abs(i[2]) > 2**53 for i in items if not _missing_in(i)) and any_missing:
        ctx.excl("int64 beyond 2**53 widened to float")
        return
    exotic = bool(set(present) & {"bytes", "tdelta", "obj"})
    ids_before = [id(x) for x in vals]
    v = ctx.call("Vector(...)", lambda: di.Vector(seq, dtype) if dtype is not None else di.Vector(seq))
    if plan["container"] == "list" and (len(vals) != n or [id(x) for x in vals] != ids_before):
        # the caller's own list: building a vector from it is no licence to rewrite it (a second vector built from the
        # same list, perhaps with another dtype, would then see other values)
        raise Violation("the constructor changed the list it was given", changed=[j for j, (a, b) in enumerate(zip(ids_before, map(id, vals))) if a != b][:5])
    if np.asarray(v).ndim != 1 or len(v) != n:
        if "obj" in present:
            ctx.reject("NumPy shape inference on tuple cells")
            return
        raise Violation("length / dimension differs from the input", got=np.asarray(v).shape, want=n)
    stringish = build.is_stringish(np.asarray(v))
    exp_na = [_missing_in(i) or (stringish and i[0] == "str" and i[2] == "") for i in items]
    if exotic and len(present) > 1:
        return
    got_na = [bool(x) for x in np.asarray(ctx.call("is_na", v.is_na))]
    if got_na != exp_na:
        raise Violation("is_na does not flag exactly the None / NaN positions", dtype=str(v.dtype), got=got_na, want=exp_na,
                        items=items)
    tl = ctx.call("tolist", v.tolist)
    if [x is None for x in tl] != exp_na:
        raise Violation("tolist does not return None at exactly the missing positions", dtype=str(v.dtype), tolist=tl)
    if n:
        # an answer belongs to the caller: editing the returned mask in place (m |= other, m[:] = ...) must not show in
        # later answers, neither for this vector nor for another one of the same length and type
        m = ctx.call("is_na", v.is_na)
        arr = np.asarray(m)
        if arr.flags.writeable:
            arr[...] = ~arr
            again = [bool(x) for x in np.asarray(ctx.call("is_na", v.is_na))]
            twin = [bool(x) for x in np.asarray(ctx.call("is_na", lambda: di.Vector(tl, v.dtype).is_na()))]
            if again != exp_na or twin != exp_na:
                raise Violation("is_na answers wrongly after an earlier answer was edited in place by the caller",
                                dtype=str(v.dtype), again=again, twin=twin, want=exp_na)
            ctx.cls("is_na_again_after_the_caller_edited_an_earlier_answer")
    if present == ["date", "dtime"]:
        # nothing can hold both without loss except object: every value must come back as it went in
        for j, it in enumerate(items):
            if exp_na[j]:
                continue
            want = mk(it[0], "py", it[2])
            if tl[j] != want or type(tl[j]) is not type(want):
                raise Violation("mixed date / datetime input: tolist does not return the original value", index=j,
                                got=repr(tl[j]), want=repr(want), dtype=str(v.dtype))
    if present:
        ctx.cls("kinds_" + "+".join(present))
    elif n:
        ctx.cls("all_missing")

    # ---- homogeneous input: dtype class, NA representative, values ----
    if len(present) == 1 and dtype is None:
        k = present[0]
        d = v.dtype
        ok = {
            "int": np.issubdtype(d, np.floating) if any_missing else np.issubdtype(d, np.integer),
            "float": np.issubdtype(d, np.floating),
            "bool": d == object if any_missing else d == bool,
            "str": stringish,
            "date": d == np.dtype("datetime64[D]"),
            "dtime": d == np.dtype("datetime64[us]"),
            "tdelta": np.issubdtype(d, np.timedelta64) or d == object,   # statement: "None otherwise"
            "bytes": True,
            "obj": d == object,
            "bigint": d == object,
        }[k]
        if not ok:
            raise Violation("inferred dtype is not the kind's type with its missing value", kind=k, dtype=str(d),
                            missing=any_missing, items=items)
    if len(present) == 1:
        k = present[0]
        got = build.cells(np.asarray(v))
        for j, it in enumerate(items):
            if exp_na[j]:
                continue
            want = _canon(it, stringish)
            a = got[j]
            if k == "int":
                good = (a == want) if isinstance(a, int) else (isinstance(a, float) and a == float(want)) or (isinstance(a, str) and a == str(want))
            elif k in ("float",):
                good = isinstance(a, float) and a == float(np.float32(want) if it[1] == "np_f32" else want)
            elif k == "bytes":
                good = bytes(a) == want if isinstance(a, (bytes, np.bytes_)) else a == want
            elif k == "obj":
                good = a == want
            else:
                good = build.same_cell(a, want)
            if not good:
                raise Violation("value altered by construction", index=j, got=a, want=want, dtype=str(v.dtype))
        # tolist returns the original values
        for j, it in enumerate(items):
            if exp_na[j] or k in ("bytes", "obj"):
                continue
            a = build.acell(tl[j], False)
            want = _canon(it, stringish)
            if k == "int" and isinstance(a, float):
                good = a == float(want)
            elif k == "int" and isinstance(a, str):
                good = a == str(want)
            elif k == "float":
                good = isinstance(a, float) and a == float(np.float32(want) if it[1] == "np_f32" else want)
            else:
                good = build.same_cell(a, want)
            if not good:
                raise Violation("tolist does not return the original value", index=j, got=tl[j], want=want, dtype=str(v.dtype))

    # ---- rebuild, equivalence, na_dtype, drop_na, replace_na ----
    v2 = ctx.call("Vector(tolist, dtype)", lambda: di.Vector(tl, v.dtype))
    if not ctx.call("equal", v2.equal, v) or not v.equal(v2):
        raise Violation("rebuilding from tolist() and dtype does not give an equal vector", dtype=str(v.dtype), tolist=tl,
                        rebuilt=build.cells(np.asarray(v2)))
    if not v.equal(v):
        raise Violation("equal is not reflexive", dtype=str(v.dtype))
    _equivalence(v, ctx)
    if n:
        w = ctx.call("astype(na_dtype)", lambda: v.astype(v.na_dtype))
        a, b = build.cells(np.asarray(w)), build.cells(np.asarray(v))
        if not all(build.same_cell(x, y, numeric_loose=True) for x, y in zip(a, b)):
            raise Violation("casting a vector to its na_dtype changed its values", dtype=str(v.dtype),
                            na_dtype=str(v.na_dtype), got=a, want=b)
        w[0] = v.na_value
        if not bool(np.asarray(w.is_na())[0]):
            raise Violation("a vector cast to its na_dtype cannot hold its na_value as missing", dtype=str(v.dtype),
                            na_dtype=str(v.na_dtype), na_value=repr(v.na_value), stored=repr(np.asarray(w)[0]))
    _after_in_place_edit(v, exp_na, ctx)
    dn = ctx.call("drop_na", v.drop_na)
    want = [c for c, m in zip(build.cells(np.asarray(v)), exp_na) if not m]
    if build.cells(np.asarray(dn)) != want and not (len(want) == 0 and len(dn) == 0):
        a, b = build.cells(np.asarray(dn)), want
        if len(a) != len(b) or not all(build.same_cell(x, y) for x, y in zip(a, b)):
            raise Violation("drop_na did not remove exactly the missing positions", got=a, want=b)
    if len(present) == 1 and present[0] in ("int", "float", "str", "bool", "date", "dtime"):
        fill = {"int": 42, "float": 42.0, "str": "zz", "bool": True, "date": np.datetime64("2000-01-01"),
                "dtime": np.datetime64("2000-01-01T00:00:00")}[present[0]]
        if not (plan["dtype"] in ("str",) and present[0] != "str") and plan["dtype"] != "object":
            rn = ctx.call("replace_na", v.replace_na, fill)
            a, b = build.cells(np.asarray(rn)), build.cells(np.asarray(v))
            for j in range(n):
                if exp_na[j]:
                    if a[j] is None:
                        raise Violation("replace_na left a missing position", index=j)
                elif not build.same_cell(a[j], b[j]):
                    raise Violation("replace_na changed a non-missing position", index=j, got=a[j], want=b[j])
            if [bool(x) for x in np.asarray(v.is_na())] != exp_na:
                raise Violation("replace_na changed its receiver")


def _after_in_place_edit(v, exp_na, ctx):
    """is_na / tolist / drop_na must describe the vector as it is now, not as it was when first asked."""
    if len(v) == 0 or np.dtype(v.na_dtype) != v.dtype:
        return                                  # the dtype cannot hold its missing value in place
    w = v.copy()
    w.is_na(); w.tolist()                       # anything cached would be cached now
    full = [j for j, m in enumerate(exp_na) if not m]
    miss = [j for j, m in enumerate(exp_na) if m]
    want = list(exp_na)
    try:
        if full:
            w[full[-1]] = w.na_value
            want[full[-1]] = True
        if miss and full:
            w[miss[0]] = np.asarray(v)[full[0]]
            want[miss[0]] = False
    except Exception:
        return
    got = [bool(x) for x in np.asarray(w.is_na())]
    if got != want:
        raise Violation("is_na does not reflect an in-place edit made after an earlier is_na/tolist call",
                        dtype=str(v.dtype), got=got, want=want)
    if [x is None for x in w.tolist()] != want:
        raise Violation("tolist does not reflect an in-place edit made after an earlier is_na/tolist call",
                        dtype=str(v.dtype), tolist=w.tolist(), want=want)
    if len(w.drop_na()) != want.count(False):
        raise Violation("drop_na does not reflect an in-place edit", dtype=str(v.dtype))


def _equivalence(v, ctx):
    """Symmetry and transitivity on (v, an exact dtype variant of v, v with one cell changed)."""
    variants = [v, v.copy()]
    try:
        if v.is_integer() and len(v) and np.abs(np.asarray(v, dtype=np.float64)).max() < 2**53:
            variants.append(di.Vector(np.asarray(v).astype(np.float64)))
        elif v.is_float() and len(v) and not v.is_na().any() and np.isfinite(np.asarray(v)).all() and \
                (np.asarray(v) == np.round(np.asarray(v))).all() and np.abs(np.asarray(v)).max() < 2**53:
            variants.append(di.Vector(np.asarray(v).astype(np.int64)))
        elif v.is_string() and len(v):
            variants.append(di.Vector(np.asarray(v).astype("U")))
        elif v.is_boolean():
            a = np.empty(len(v), dtype=object)
            for j, x in enumerate(np.asarray(v)):
                a[j] = bool(x)
            variants.append(di.Vector(a))
    except Exception:
        pass
    try:
        # neighbours in another numeric dtype that differ only by what a cast to v's dtype would discard
        if v.is_integer() and len(v) and np.abs(np.asarray(v, dtype=np.float64)).max() < 2**52:
            variants.append(di.Vector(np.asarray(v).astype(np.float64) + 0.5))
        elif v.is_float() and len(v) and v.dtype == np.float64:
            variants.append(di.Vector(np.asarray(v).astype(np.float32)))
        elif v.is_float() and len(v) and v.dtype == np.float32:
            variants.append(di.Vector(np.asarray(v).astype(np.float64) + 1e-9))
    except Exception:
        pass
    if len(v):
        w = v.copy()
        try:
            w[len(v) - 1] = w[0] if len(v) > 1 and not build.same_cell(build.cells(w)[0], build.cells(w)[-1]) else w.na_value
            variants.append(w)
        except Exception:
            pass
    # same-dtype rearrangements: equality is decided by the cells (missing == missing, position-wise)
    base = build.cells(np.asarray(v))
    # (object vectors compare with Python ==, where e.g. date != datetime: canonical cells do not apply)
    for w in ([v[::-1].copy(), np.roll(np.asarray(v), 1).view(type(v))] if len(v) > 1 and not v.is_object() else []):
        cw = build.cells(np.asarray(w))
        want = all(build.same_cell(x, y, numeric_loose=True) for x, y in zip(base, cw))
        got = bool(ctx.call("equal", v.equal, w))
        if got != want or bool(w.equal(v)) != want:
            raise Violation("equal disagrees with cell-wise equality (missing == missing at the same positions)",
                            a=base, b=cw, equal=got, expected=want, dtype=str(v.dtype))
    rel = {}
    for i, a in enumerate(variants):
        for j, b in enumerate(variants):
            rel[i, j] = bool(ctx.call("equal", a.equal, b))
    m = len(variants)
    for i in range(m):
        if not rel[i, i]:
            raise Violation("equal is not reflexive", dtype=str(variants[i].dtype))
        for j in range(m):
            if rel[i, j] != rel[j, i]:
                raise Violation("equal is not symmetric", a=build.cells(variants[i]), b=build.cells(variants[j]),
                                adtype=str(variants[i].dtype), bdtype=str(variants[j].dtype))
            for k in range(m):
                if rel[i, j] and rel[j, k] and not rel[i, k]:
                    raise Violation("equal is not transitive", a=build.cells(variants[i]), b=build.cells(variants[j]),
                                    c=build.cells(variants[k]))
    if not rel[0, 1]:
        raise Violation("a vector is not equal to its copy")


KNOWN = {}
