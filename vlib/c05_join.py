# -*- coding: utf-8 -*-
"""C05 — DataFrame joins: first-match relational semantics, never lose rows."""

import numpy as np
import dataiter as di
from hypothesis import strategies as st

from . import build, gen, model
from .runner import Violation

ID = "C05"
RULE = ("plan = left frame + right frame (0..8 rows each quick / 0..20 thorough; 0 rows and disjoint keys over-weighted) sharing "
        "1..2 key columns drawn from the same tight value pool (kinds bool/int/float/str/legacy <U/date/datetime/object incl. "
        "missing, ±0.0, ±inf, 2**53 neighbours), same-name or (left,right) renamed keys, payload columns with occasional name "
        "collisions, own row-id column per side; op in {left, inner, semi, anti, full}. Oracle: nested-loop first-match reference "
        "(lowest right row whose key cells are all non-missing and equal); exact expectation for left/inner/semi/anti, validity "
        "predicate for full_join. Non-trivial: both sides non-empty and (a duplicate right key that matches, or a missing key on "
        "either side, or a renamed key, or 2 key columns, or an unmatched row on each side). Distinct = plan hash.")
CASES = {"quick": 1200, "thorough": 12000}

KEY_KINDS = ["b", "i", "i", "f", "s", "s", "u", "d", "t", "o", "oi", "i8", "u8", "i32", "f32", "td", "tn"]
PAY_KINDS = ["f", "i", "b", "s", "d", "o", "td", "t", "ob"]
OPS = ["left", "left", "inner", "semi", "anti", "full", "full"]


MIXED_PAIRS = [("i", "f"), ("f", "i"), ("i", "i8"), ("i8", "i"), ("i", "u8"), ("u8", "i"), ("f", "f32"), ("f32", "f"),
               ("i32", "i"), ("f", "i8"), ("b", "i"), ("i", "b"), ("b", "f"), ("u8", "b")]      # True == 1, False == 0
MIXED_POOL = {"i": [0, 1, 2, 3, 300, -1, 44, 255, 2**31 + 1], "f": [gen.NAN, 0.0, 1.0, 1.5, 2.0, 2.5, 300.0, 0.1, -1.0],
              "i8": [0, 1, 2, 3, 44, -1], "u8": [0, 1, 2, 3, 44, 255], "f32": [gen.NAN, 0.0, 1.0, 1.5, 2.0, 0.1],
              "i32": [0, 1, 2, 3, -2**31 + 1, 300], "b": [True, False]}


@st.composite
def _plan(draw, max_rows):
    nl = draw(gen.nrows(max_rows))
    nr = draw(gen.nrows(max_rows))
    nk = draw(st.sampled_from([1, 1, 1, 2]))
    huge = draw(st.integers(0, 24)) == 0
    if huge:
        # long operands (65 .. 2049 rows on either side): beyond any size threshold a fast path might use
        nl = draw(st.sampled_from(gen.BIG_SIZES + gen.HUGE_SIZES[:3] + [3, 12]))
        nr = draw(st.sampled_from(gen.BIG_SIZES + gen.HUGE_SIZES[:3] + [3, 12, 10007, 12001]))     # also beyond ten thousand rows
    left, right, by = [], [], []
    mixed = draw(st.integers(0, 7)) == 0
    if mixed:
        # one numeric key whose dtype differs between the sides; values from pools where equality across the two
        # dtypes is unambiguous, some of them not representable in the other side's dtype (1.5, 300, -1, float32(0.1))
        nk = 1
        lkind, rkind = draw(st.sampled_from(MIXED_PAIRS))
        rn = "k0" if draw(st.booleans()) else "r0"
        left.append({"name": "k0", "kind": lkind, "vals": [draw(st.sampled_from(MIXED_POOL[lkind])) for _ in range(nl)]})
        right.append({"name": rn, "kind": rkind, "vals": [draw(st.sampled_from(MIXED_POOL[rkind])) for _ in range(nr)]})
        by.append(["k0", rn])
    for j in range(0 if mixed else nk):
        kind = draw(st.sampled_from(KEY_KINDS))
        mode = draw(st.sampled_from(["tight", "tight", "tight", "pool", "twins"]))
        ln = f"k{j}"
        rn = ln if draw(st.integers(0, 2)) else f"r{j}"
        vals_of = (lambda m: gen.big_values(kind, m, na="asis")) if huge else (lambda m: gen.values(kind, m, mode=mode, na="asis"))
        left.append({"name": ln, "kind": kind, "vals": draw(vals_of(nl))})
        right.append({"name": rn, "kind": kind, "vals": draw(vals_of(nr))})
        by.append([ln, rn])
        if rn != ln and draw(st.integers(0, 2)) == 0 and not huge:
            # the right frame owns an ordinary column named like the left key (after its real key)
            right.append({"name": ln, "kind": kind, "vals": draw(gen.values(kind, nr, mode=mode, na="asis"))})
    for j in range(draw(st.integers(0, 2))):
        kind = draw(st.sampled_from(PAY_KINDS))
        left.append({"name": f"a{j}", "kind": kind, "vals": draw(gen.big_values(kind, nl, na="asis") if huge else gen.values(kind, nl))})
    for j in range(0 if huge else draw(st.integers(0, 2))):
        kind = draw(st.sampled_from(PAY_KINDS))
        name = f"b{j}" if draw(st.integers(0, 4)) else f"a{j}"   # occasional collision with a left payload name
        same = [c for c in left if c["name"] == name]
        if same:
            kind = same[0]["kind"]     # colliding columns of different kinds are outside the statement
        right.append({"name": name, "kind": kind, "vals": draw(gen.values(kind, nr))})
    if huge:
        right.append({"name": "b0", "kind": "i", "vals": [(i * 7) % 1000 for i in range(nr)]})
    right = [right[i] for i in draw(st.permutations(range(len(right))))]
    plan = {"left": {"n": nl, "cols": left}, "right": {"n": nr, "cols": right}, "by": by,
            "op": draw(st.sampled_from(OPS))}
    draw(gen.decorate(plan["left"]))
    draw(gen.decorate(plan["right"]))
    if draw(st.integers(0, 5)) == 0:
        plan["failed_first"] = True
    if draw(st.integers(0, 5)) == 0:
        plan["poke_then_repeat"] = True
    if mixed:
        plan["mixed"] = True
        plan["op"] = draw(st.sampled_from(["left", "inner", "semi", "anti"]))
        return plan
    if nl and nr and draw(st.integers(0, 3)) == 0:
        # history: join, edit a key cell of the same right (or left) frame in place, join again
        edits = []
        for _ in range(draw(st.integers(1, 2))):
            side = draw(st.sampled_from(["right", "right", "left"]))
            ln, rn = by[draw(st.integers(0, nk - 1))]
            cols = left if side == "left" else right
            c = next(c for c in cols if c["name"] == (ln if side == "left" else rn))
            if c["kind"] == "u":
                continue
            edits.append([side, c["name"], draw(st.integers(0, (nl if side == "left" else nr) - 1)),
                          draw(gen.value(c["kind"], "tight"))])
        plan["edits"] = edits
    return plan


def strategy(tier):
    return _plan(8 if tier == "quick" else 20)


def _keys(plan):
    lc = {c["name"]: c for c in plan["left"]["cols"]}
    rc = {c["name"]: c for c in plan["right"]["cols"]}
    lk = [[build.pcell(lc[a]["kind"], v) for v in lc[a]["vals"]] for a, b in plan["by"]]
    rk = [[build.pcell(rc[b]["kind"], v) for v in rc[b]["vals"]] for a, b in plan["by"]]
    if plan.get("mixed"):
        # keys of different numeric dtypes are equal when their values are (1 == 1.0); all pool values are exact floats
        lk = [[None if c is None else float(c) for c in col] for col in lk]
        rk = [[None if c is None else float(c) for c in col] for col in rk]
    return lk, rk


def nontrivial(plan):
    nl, nr = plan["left"]["n"], plan["right"]["n"]
    if nl == 0 or nr == 0:
        return False
    lk, rk = _keys(plan)
    m = model.first_match(lk, rk)
    if len(plan["by"]) >= 2 or any(a != b for a, b in plan["by"]):
        return True
    if any(c is None for col in lk + rk for c in col):
        return True
    rids = [tuple(model.ident(c[j]) for c in rk) for j in range(nr)]
    for j in set(x for x in m if x is not None):
        if rids.count(rids[j]) > 1:
            return True
    unmatched_right = set(range(nr)) - set(x for x in m if x is not None)
    return any(x is None for x in m) and bool(unmatched_right)


def _same_promoted(got, want):
    """Cell equality where the result column may have been NA-promoted (int -> float, bool -> object)."""
    if isinstance(want, int) and not isinstance(want, bool) and isinstance(got, float):
        return float(want) == got
    return build.same_cell(got, want, numeric_loose=isinstance(got, float) and isinstance(want, float) and False)


def by_arg(plan):
    return [a if a == b else (a, b) for a, b in plan["by"]]


_PHASE = [""]


class Violation(Violation):                    # prefixes the phase to every message of this module
    def __init__(self, what, **detail):
        super().__init__(_PHASE[0] + what, **detail)


def check(plan, ctx):
    L = build.frame(plan["left"], rid="_la_")
    R = build.frame(plan["right"], rid="_rb_")
    if plan.get("failed_first"):
        # history: the same call failed a moment ago (misspelt key): it must have left both frames as they were,
        # and the correct call that follows must not notice
        lb, rb = build.snap_frame(L), build.snap_frame(R)
        try:
            getattr(L, f"{plan['op']}_join")(R, "no such key")
        except Exception:
            pass
        if build.snap_frame(L) != lb or build.snap_frame(R) != rb:
            raise Violation(f"a failing {plan['op']}_join changed an operand",
                            left=list(dict.keys(L)), right=list(dict.keys(R)))
        ctx.cls("after_a_failed_join")
    out = _check_join(plan, L, R, ctx)
    if plan.get("poke_then_repeat") and out is not None and out.nrow:
        # history: the caller fills the joined columns of the result in place; the same join of equal frames built
        # afresh must still see missing values where nothing matches
        for cn in dict.keys(out):
            if cn not in dict.keys(L):
                col = out[cn]
                if col.flags.writeable:
                    try:
                        col[:] = col[0] if not col.is_na()[0] else {"f": 7.5, "i": 7, "O": "poked", "T": "poked", "b": True}.get(col.dtype.kind, col[0])
                    except Exception:
                        pass
        ctx.cls("joined_again_after_filling_the_result_in_place")
        _PHASE[0] = "after the previous result was filled in place: "
        try:
            _check_join(plan, build.frame(plan["left"], rid="_la_"), build.frame(plan["right"], rid="_rb_"), ctx)
        finally:
            _PHASE[0] = ""
    if plan.get("edits"):
        p2 = dict(plan)
        for side in ("left", "right"):
            p2[side] = {"n": plan[side]["n"], "cols": [dict(c, vals=list(c["vals"])) for c in plan[side]["cols"]]}
        for side, name, row, v in plan["edits"]:
            c = next(c for c in p2[side]["cols"] if c["name"] == name)
            c["vals"][row] = v
            (L if side == "left" else R)[name][row] = build.np_array(c["kind"], [v])[0]
        ctx.cls("joined_again_after_in_place_edit")
        _PHASE[0] = "after an in-place edit of an operand: "
        try:
            _check_join(p2, L, R, ctx)
        finally:
            _PHASE[0] = ""


def _check_join(plan, L, R, ctx):
    ls, rs = build.table(L), build.table(R)
    lb, rb = build.snap_frame(L), build.snap_frame(R)
    nl, nr = plan["left"]["n"], plan["right"]["n"]
    op = plan["op"]
    by = by_arg(plan)
    lk, rk = _keys(plan)
    match = model.first_match(lk, rk)
    by2 = [b for a, b in plan["by"]]
    by1 = [a for a, b in plan["by"]]
    lnames = list(ls)
    rnames = [c for c in rs if c not in by2 and c not in ls]     # right columns expected in the result
    out = ctx.call(f"{op}_join", getattr(L, f"{op}_join"), R, *by)
    if not isinstance(out, di.DataFrame):
        raise Violation(f"{op}_join did not return a DataFrame")
    out2 = ctx.call(f"{op}_join (second call)", getattr(L, f"{op}_join"), R, *by)
    if build.snap_frame(out2) != build.snap_frame(out):
        raise Violation(f"{op}_join: a second identical call gives a different result")
    ctx.cls("op_" + op, "left0" if nl == 0 else "leftN", "right0" if nr == 0 else "rightN")
    ctx.cls(f"keys_{len(plan['by'])}", *("keykind_" + c["kind"] for c in plan["left"]["cols"] if c["name"] in by1))
    if plan.get("mixed"):
        ctx.cls("key_dtypes_differ_between_sides")
    if max(nl, nr) >= 65:
        if nr > 10000:
            ctx.cls("right_operand_beyond_10000_rows")
        ctx.cls("operand_of_65_rows_or_more", "operand_of_513_rows_or_more" if max(nl, nr) >= 513 else "operand_65_to_512")
    if any(a != b for a, b in plan["by"]):
        ctx.cls("key_names_differ")
        if any(a in rs for a, b in plan["by"] if a != b):
            ctx.cls("right_owns_a_column_named_like_the_left_key")
    if any(c in ls for c in rs if c not in by2 and c != "_rb_"):
        ctx.cls("payload_name_on_both_sides")
    if any(x is None for col in lk + rk for x in col):
        ctx.cls("missing_key_cell")
    rkt = [tuple(model.ident(c[j]) for c in rk) for j in range(nr)]
    if len(set(rkt)) < len(rkt):
        ctx.cls("duplicate_right_keys")
    if any(x is None for x in match) and nl:
        ctx.cls("has_unmatched_left")
    if any(x is not None for x in match):
        ctx.cls("has_match")

    def right_cells_ok(out, rows_l, promoted):
        for cn in rnames:
            tag, scells = rs[cn]
            oc = build.cells(out[cn])
            if not promoted and build.dtype_tag(out[cn]) != tag:
                raise Violation(f"{op}_join: right column dtype changed", column=cn, got=build.dtype_tag(out[cn]), want=tag)
            for j, li in enumerate(rows_l):
                want = None if match[li] is None else scells[match[li]]
                if not _same_promoted(oc[j], want):
                    raise Violation(f"{op}_join: right column cell is not the first match's value / missing",
                                    column=cn, left_row=li, first_match=match[li], got=oc[j], want=want)

    if op in ("left", "inner"):
        names = lnames + rnames
        got_names = list(dict.keys(out))
        if got_names != names:
            raise Violation(f"{op}_join: columns differ", got=got_names, want=names)
        sub = {k: out[k] for k in lnames}
        rows_l = build.check_whole_rows(f"{op}_join(left part)", sub, ls, rid="_la_")
        want_rows = list(range(nl)) if op == "left" else [i for i in range(nl) if match[i] is not None]
        if rows_l != want_rows:
            raise Violation(f"{op}_join: left rows differ from the reference", got=rows_l, want=want_rows)
        right_cells_ok(out, rows_l, promoted=(op == "left"))
    elif op in ("semi", "anti"):
        rows_l = build.check_whole_rows(f"{op}_join", out, ls, rid="_la_")
        want_rows = [i for i in range(nl) if (match[i] is not None) == (op == "semi")]
        if rows_l != want_rows:
            raise Violation(f"{op}_join: rows differ from the reference", got=rows_l, want=want_rows, match=match)
    else:
        _check_full(plan, out, ls, rs, lnames, rnames, by1, by2, lk, rk, nl, nr)

    if build.snap_frame(L) != lb or build.snap_frame(R) != rb:
        raise Violation(f"{op}_join changed an operand")
    return out


def _check_full(plan, out, ls, rs, lnames, rnames, by1, by2, lk, rk, nl, nr):
    names = lnames + rnames
    got_names = list(dict.keys(out))
    if got_names != names:
        raise Violation("full_join: columns differ", got=got_names, want=names)
    oc = {k: build.cells(out[k]) for k in names}
    n = len(oc["_la_"])
    if any(len(v) != n for v in oc.values()):
        raise Violation("full_join: result not rectangular")
    seen_l, seen_r = set(), set()
    collide = {cn for cn in lnames if cn in rs and cn not in by1 and cn not in by2}
    for j in range(n):
        la, rb = oc["_la_"][j], oc["_rb_"][j]
        if la is None and rb is None:
            raise Violation("full_join: row that stems from neither side", row=j)
        li = None if la is None else int(la)
        ri = None if rb is None else int(rb)
        if (li is not None and not 0 <= li < nl) or (ri is not None and not 0 <= ri < nr):
            raise Violation("full_join: unknown row id", row=j, la=la, rb=rb)
        if li is not None:
            seen_l.add(li)
            for cn in lnames:
                if _same_promoted(oc[cn][j], ls[cn][1][li]):
                    continue
                # A payload name present on both sides has two sources in a paired row; the statement
                # does not say which one wins, so either is accepted there.
                if cn in collide and ri is not None and _same_promoted(oc[cn][j], rs[cn][1][ri]):
                    continue
                # a paired row may show the (equal) key value of either side, e.g. 0.0 for -0.0
                if cn in by1 and ri is not None and _same_promoted(oc[cn][j], rk[by1.index(cn)][ri]):
                    continue
                raise Violation("full_join: left cell altered", column=cn, row=j, got=oc[cn][j], want=ls[cn][1][li])
        if ri is not None:
            seen_r.add(ri)
            for cn in rnames:
                if not _same_promoted(oc[cn][j], rs[cn][1][ri]):
                    raise Violation("full_join: right cell altered", column=cn, row=j, got=oc[cn][j], want=rs[cn][1][ri])
        if li is not None and ri is not None:
            for a, b in zip(lk, rk):
                if a[li] is None or b[ri] is None or model.ident(a[li]) != model.ident(b[ri]):
                    raise Violation("full_join: paired rows with unequal or missing keys", row=j, left=a[li], right=b[ri])
        if li is not None and ri is None:
            for cn in rnames:
                if oc[cn][j] is not None:
                    raise Violation("full_join: left-only row has a right value", column=cn, row=j, got=oc[cn][j])
        if li is None and ri is not None:
            for cn in lnames:
                if cn in by1:
                    want = rk[by1.index(cn)][ri]
                    if not _same_promoted(oc[cn][j], want):
                        raise Violation("full_join: right-only row does not carry the right key", column=cn, row=j,
                                        got=oc[cn][j], want=want)
                elif cn in collide:
                    if oc[cn][j] is not None and not _same_promoted(oc[cn][j], rs[cn][1][ri]):
                        raise Violation("full_join: right-only row has a foreign value", column=cn, row=j, got=oc[cn][j])
                elif cn != "_la_" and oc[cn][j] is not None:
                    raise Violation("full_join: right-only row has a left value", column=cn, row=j, got=oc[cn][j])
    la_seq = [int(x) for x in oc["_la_"] if x is not None]
    if la_seq != sorted(la_seq):
        raise Violation("full_join: left rows are not in their original order", got=la_seq)
    if seen_l != set(range(nl)):
        raise Violation("full_join: left rows lost", missing=sorted(set(range(nl)) - seen_l))
    if seen_r != set(range(nr)):
        raise Violation("full_join: right rows lost", missing=sorted(set(range(nr)) - seen_r))


KNOWN = {}
