# -*- coding: utf-8 -*-
"""C01 — every data frame is a well-formed rectangular table (generated operation histories)."""

import contextlib
import io
import os

import numpy as np
import dataiter as di
from hypothesis import strategies as st

from . import build, gen, model
from .runner import Violation

ID = "C01"
RULE = ("plan = initial frames (constructor plans incl. scalars, length-1 values, 0 columns, 0 rows, mismatching lengths, 2-D "
        "arrays) + a history of ≤ 25 steps (≤ 60 thorough) interpreted over a growing pool of frames: item/attribute "
        "assignment, setdefault and |= with len(v) in {scalar, 1, nrow, other}, del item/attribute, pop, popitem, colnames assignment (fresh, "
        "permuted, clashing names), every transforming method with shape-valid arguments (filter, slice, head, tail, drop_na, "
        "sample, unique, sort, select, unselect, rename, modify scalar/vector/callable/grouped, cbind, rbind, update, five joins, "
        "group_by+aggregate, count, copy, deepcopy), converters there-and-back (ListOfDicts, JSON, pandas, Arrow) and readers on "
        "a file written in the same step (csv, json, npz, parquet, pickle). Invariant after every step on receiver, arguments "
        "and result: every value is a 1-D DataFrameColumn, all lengths equal nrow, len == ncol, colnames == list(frame) equals "
        "the model's order where the model defines it, columns[i] is frame[colnames[i]]; key/attribute coherence for present "
        "and removed names; broadcast gives nrow identical cells; any other length mismatch raises and leaves the frame "
        "bit-identical. Non-trivial: ≥ 3 executed steps with an in-place edit and a transforming call, or a degenerate shape "
        "(0-row, 0-column, 1-row, all-missing column) reached. Distinct = plan hash.")
CASES = {"quick": 1200, "thorough": 6000}

KINDS = ["f", "i", "b", "s", "u", "d", "t", "td", "o", "ob"]
NAMES = gen.NAMES_PLAIN + gen.NAMES_CLASH + gen.NAMES_NONID[:3] + ["__id", "__k__", "_x", "_"]     # identifiers Python treats specially
INPLACE = ["setitem", "setitem", "setattr", "setdefault", "ior", "delitem", "delattr", "pop", "popitem", "colnames"]
TRANSFORM = ["filter", "slice", "head", "tail", "drop_na", "sample", "unique", "sort", "select", "unselect", "rename",
             "modify", "modify_callable", "modify_grouped", "cbind", "cbind", "rbind", "update", "left_join", "inner_join", "semi_join",
             "anti_join", "full_join", "aggregate", "count", "copy", "deepcopy"]
CONVERT = ["lod", "json", "pandas", "arrow", "csv", "json_file", "npz", "parquet", "pickle"]
BUILTIN = set(dir(di.DataFrame()))


@st.composite
def _value(draw, n):
    """A value plan for construction / assignment: how long it is relative to nrow."""
    how = draw(st.sampled_from(["full", "full", "full", "scalar", "one", "other", "twod", "twod_view", "zerod", "other_iter", "full_iter"]))
    kind = draw(st.sampled_from(KINDS))
    if how == "full":
        return {"how": how, "kind": kind, "vals": draw(gen.values(kind, n))}
    if how in ("scalar", "one", "zerod"):
        v = draw(gen.values(kind, 1, na="none" if kind in ("f", "s", "u") else None))
        return {"how": how, "kind": kind, "vals": v}
    if how == "full_iter":
        return {"how": how, "kind": draw(st.sampled_from(["i", "f", "s", "b"])), "vals": draw(gen.values("i", n)), "form": draw(st.integers(0, 2))}
    if how == "other_iter":
        # a one-shot iterable (generator, map, iterator) that yields more or fewer values than there are rows
        m = draw(st.integers(2, n + 3).filter(lambda x: x != n))
        return {"how": how, "kind": "i", "vals": draw(gen.values("i", m)), "form": draw(st.integers(0, 2))}
    if how == "other":
        m = draw(st.integers(2, n + 3).filter(lambda x: x != n))
        return {"how": how, "kind": kind, "vals": draw(gen.values(kind, m))}
    if how == "twod_view":
        return {"how": how, "kind": kind, "vals": draw(gen.values(kind, n))}
    return {"how": "twod", "kind": "f", "vals": [1.0, 2.0]}


@st.composite
def _ctor(draw):
    n = draw(gen.nrows(6))
    k = draw(st.integers(0, 4))
    nm = draw(st.lists(st.sampled_from(NAMES), min_size=k, max_size=k, unique=True))
    vals = [draw(_value(n)) for _ in nm]
    return {"n": n, "names": nm, "vals": vals,
            "form": draw(st.sampled_from(["dict", "dict", "kwargs", "pairs", "frame_plus_kwargs", "dict_plus_kwargs"]))}


@st.composite
def _plan(draw, max_steps):
    ctors = [draw(_ctor()) for _ in range(draw(st.integers(1, 2)))]
    steps = []
    for _ in range(draw(st.integers(1, max_steps))):
        group = draw(st.sampled_from(["inplace", "inplace", "transform", "transform", "transform", "convert"]))
        op = draw(st.sampled_from({"inplace": INPLACE, "transform": TRANSFORM, "convert": CONVERT}[group]))
        s = {"op": op, "i": draw(st.integers(0, 20)), "j": draw(st.integers(0, 20)), "a": draw(st.integers(0, 9)),
             "name": draw(st.sampled_from(NAMES))}
        if op in ("setitem", "setattr", "setdefault", "ior", "modify"):
            s["value"] = draw(_value(draw(st.integers(0, 6))))
        if op == "colnames":
            s["how"] = draw(st.sampled_from(["fresh", "permute", "clash", "partial", "shorter"]))
        steps.append(s)
    return {"ctors": ctors, "steps": steps}


def strategy(tier):
    return _plan(25 if tier == "quick" else 60)


def nontrivial(plan):
    ops = [s["op"] for s in plan["steps"]]
    if len(ops) >= 3 and any(o in INPLACE for o in ops) and any(o in TRANSFORM for o in ops):
        return True
    return any(c["n"] <= 1 or not c["names"] for c in plan["ctors"])


# -- values ---------------------------------------------------------------------------------------

def _mk_value(v, n):
    """Real value for a value plan, resized to the current nrow where the plan says 'full'."""
    kind, vals = v["kind"], list(v["vals"])
    if v["how"] == "full":
        vals = (vals * (n // max(len(vals), 1) + 1))[:n] if vals else [gen.POOLS[kind][-1]] * n
        return build.np_array(kind, vals), n
    if v["how"] == "scalar":
        a = build.np_array(kind, vals)
        x = a[0]
        return (x.item() if hasattr(x, "item") and kind in ("f", "i", "b") else x), "scalar"
    if v["how"] == "one":
        return build.np_array(kind, vals), 1
    if v["how"] == "zerod":
        # a zero-dimensional array: scalar-like, so it may be broadcast or rejected - but never stored as it is
        return build.np_array(kind, vals).reshape(()), "zerod"
    if v["how"] in ("other_iter", "full_iter"):
        kind = "i"
        if v["how"] == "full_iter":
            vals = (vals * (n // max(len(vals), 1) + 1))[:n] if vals else [0] * n
        elif len(vals) == n:
            vals = vals + vals[:1]
        py = [int(x) for x in vals]
        it = [(x for x in py), map(int, py), iter(py)][v.get("form", 0)]
        return it, len(py)
    if v["how"] == "other":
        if len(vals) == n:
            vals = vals + vals[:1]
        return build.np_array(kind, vals), len(vals)
    if v["how"] == "twod_view":
        # a two-dimensional *column view* with exactly nrow elements (reshape of a real column): size fits, shape does not
        vals = (vals * (n // max(len(vals), 1) + 1))[:n] if vals else [gen.POOLS[kind][-1]] * n
        col = build.column(kind, vals)
        return (col.reshape(-1, 1) if len(vals) % 2 else col.reshape(1, -1)), "twod"
    return np.zeros((2, 2)), "twod"


# -- invariants -----------------------------------------------------------------------------------

class Model:
    def __init__(self, names=None):
        self.names = names          # expected column order, or None when the model does not define it
        self.removed = set()


def invariant(data, model, where):
    if not isinstance(data, di.DataFrame):
        raise Violation(f"{where}: not a DataFrame", type=str(type(data)))
    keys = list(dict.keys(data))
    cols = list(dict.values(data))
    for k, c in zip(keys, cols):
        if not isinstance(c, di.DataFrameColumn):
            raise Violation(f"{where}: a column is not a DataFrameColumn", column=k, type=str(type(c)))
        if np.asarray(c).ndim != 1:
            raise Violation(f"{where}: a column is not one-dimensional", column=k, ndim=np.asarray(c).ndim)
    lens = [len(c) for c in cols]
    if len(set(lens)) > 1:
        raise Violation(f"{where}: columns have different lengths", lengths=dict(zip(keys, lens)))
    try:
        nrow, ncol, colnames, columns = data.nrow, data.ncol, data.colnames, data.columns
    except Exception as e:
        raise Violation(f"{where}: nrow/ncol/colnames/columns raised", exc=f"{type(e).__name__}: {e}")
    if nrow != (lens[0] if lens else 0) or ncol != len(keys) or len(data) != ncol:
        raise Violation(f"{where}: nrow/ncol disagree with the columns", nrow=nrow, ncol=ncol, lens=lens)
    if colnames != keys or len(set(colnames)) != len(colnames):
        raise Violation(f"{where}: colnames differ from the keys or contain duplicates", colnames=colnames, keys=keys)
    for i, cn in enumerate(colnames):
        if columns[i] is not data[cn]:
            raise Violation(f"{where}: columns[i] is not frame[colnames[i]]", column=cn)
    if model is not None and model.names is not None and colnames != model.names:
        raise Violation(f"{where}: column order differs from the model", got=colnames, want=model.names)
    for cn in colnames:
        if isinstance(cn, str) and cn.isidentifier() and cn not in BUILTIN:
            try:
                got = getattr(data, cn)
            except Exception as e:
                raise Violation(f"{where}: a column is not reachable by attribute", column=cn, exc=str(e))
            if got is not data[cn]:
                raise Violation(f"{where}: attribute access does not return the column", column=cn, got=str(type(got)))
    if model is not None:
        for cn in model.removed - set(colnames):
            if cn in data:
                raise Violation(f"{where}: removed name still a key", name=cn)
            if cn not in BUILTIN and hasattr(data, cn):
                raise Violation(f"{where}: removed column still reachable by attribute", name=cn,
                                value=str(getattr(data, cn, None)))
            try:
                data[cn]
            except KeyError:
                pass
            else:
                raise Violation(f"{where}: removed column still reachable by key", name=cn)


def _identical(a, n):
    cs = build.cells(a)
    return len(cs) == n and all(build.same_cell(x, cs[0]) for x in cs)


# -- interpreter ----------------------------------------------------------------------------------

def _construct(c, ctx):
    n = c["n"]
    kw, ok = {}, True
    lens = []
    for nm, v in zip(c["names"], c["vals"]):
        val, ln = _mk_value(v, n)
        if v["how"].endswith("_iter"):
            val = np.array(list(val), dtype=np.int64)          # the constructor is not claimed to take one-shot iterables
        kw[nm] = val
        lens.append(ln)
    real = [l for l in lens if isinstance(l, int)]
    zerod = "zerod" in lens                   # scalar-like: rejected or broadcast, both fine; stored as it is, never
    lens = ["scalar" if l == "zerod" else l for l in lens]
    target = max([1 if l == "scalar" else l for l in lens if l != "twod"], default=0)
    bad = "twod" in lens or any(l not in (1, target) for l in real) or (target == 0 and ("scalar" in lens or 1 in real)) or zerod
    form = c.get("form", "dict")
    try:
        if form == "kwargs":
            data = di.DataFrame(**kw)
        elif form == "pairs":
            data = di.DataFrame(list(kw.items()))
        elif form in ("frame_plus_kwargs", "dict_plus_kwargs") and len(kw) >= 2:
            # "args and kwargs like for dict": a mapping (an existing frame, or a plain dict) plus keyword columns
            half = len(kw) // 2
            first, rest = dict(list(kw.items())[:half]), dict(list(kw.items())[half:])
            base = first
            if form == "frame_plus_kwargs":
                try:
                    base = di.DataFrame(first)
                except Exception:
                    base = first
            data = di.DataFrame(base, **rest)
            ctx.cls("ctor_" + form)
        else:
            data = di.DataFrame(kw)
    except Exception as e:
        if not bad and not (target == 0 and lens):
            raise Violation("constructor raised on values of consistent length", lens=lens, exc=f"{type(e).__name__}: {e}")
        ctx.cls("ctor_rejected")
        return None, None
    if "twod" in lens or any(l not in (1, target) for l in real):
        raise Violation("constructor stored values of mismatching length instead of raising", lens=lens,
                        got=[len(x) for x in dict.values(data)])
    model = Model(list(c["names"]))
    invariant(data, model, "constructor")
    for nm, l in zip(c["names"], lens):
        if l in ("scalar", 1) and data.nrow >= 1 and not _identical(data[nm], data.nrow):
            raise Violation("constructor did not broadcast a scalar / length-1 value to nrow identical cells", column=nm)
    ctx.cls("ctor_ok")
    return data, model


def check(plan, ctx):
    try:
        return _check(plan, ctx)
    except MemoryError as e:
        raise Violation("a stored column cannot be read back (corrupt array)", exc=str(e)[:200])


def _check(plan, ctx):
    pool = []
    for c in plan["ctors"]:
        data, model = _construct(c, ctx)
        if data is not None:
            pool.append((data, model))
    if not pool:
        pool.append((di.DataFrame(), Model([])))
    executed = 0
    for no, s in enumerate(plan["steps"]):
        data, model = pool[s["i"] % len(pool)]
        other, omodel = pool[s["j"] % len(pool)]
        op = s["op"]
        where = f"step {no} {op}"
        names = list(dict.keys(data))
        n = data.nrow
        pick = (lambda k=0: names[(s["a"] + k) % len(names)]) if names else None
        result = None
        rmodel = Model(None)
        if op in ("setitem", "setattr", "setdefault", "ior"):
            name = s["name"]
            if op == "setdefault" and s["a"] % 3 == 0 and names:
                name = pick()                      # a name that exists: nothing may change, whatever the default's length
            if op == "setattr" and (not name.isidentifier() or name in BUILTIN or name in ("colnames", "_group_colnames")):
                ctx.excl("setattr on a non-identifier / method name")
                continue
            val, ln = _mk_value(s["value"], n)
            snap = build.snap_frame(data)
            had_attr = {k for k in data.__dict__}
            zerod = ln == "zerod"
            if zerod:
                ln = "scalar"
            legal = ln in ("scalar", 1, n) if names else ln != "twod"
            if (ln in ("scalar", 1) and names and n == 0) or zerod:
                legal = None                      # broadcasting into a 0-row frame may raise or give 0 rows;
                                                  # a zero-dimensional array may be rejected or treated as a scalar
            if op == "setdefault" and name in names:
                got = ctx.call(where, lambda: data.setdefault(name, val))
                if got is not dict.__getitem__(data, name) or build.snap_frame(data) != snap:
                    raise Violation(f"{where}: setdefault on an existing name changed the frame or returned something else")
                ctx.cls("setdefault_existing")
                invariant(data, model, where)
                continue
            try:
                if op == "setitem":
                    data[name] = val
                elif op == "setdefault":
                    got = data.setdefault(name, val)
                    if got is not dict.__getitem__(data, name):
                        raise Violation(f"{where}: setdefault did not return the stored column", type=str(type(got)))
                elif op == "ior":
                    import operator
                    if operator.ior(data, {name: val}) is not data:
                        raise Violation(f"{where}: |= did not update in place")
                else:
                    setattr(data, name, val)
            except Violation:
                raise
            except Exception as e:
                if legal:
                    raise Violation(f"{where}: assignment of a value of matching length raised", length=ln, nrow=n,
                                    exc=f"{type(e).__name__}: {e}")
                if build.snap_frame(data) != snap or {k for k in data.__dict__} != had_attr:
                    raise Violation(f"{where}: a rejected assignment changed the frame",
                                    stray=sorted({k for k in data.__dict__} - had_attr))
                ctx.cls("assignment_rejected")
                continue
            if zerod:
                invariant(data, None, where + " (after assigning a zero-dimensional array)")
            if legal is False or (legal is None and len(dict.__getitem__(data, name)) != (n if names else 1 if zerod else n)):
                raise Violation(f"{where}: a value of mismatching length was stored instead of rejected", length=ln, nrow=n,
                                stored=len(dict.__getitem__(data, name)))
            if name not in names and model.names is not None:
                model.names = model.names + [name]
            model.removed.discard(name)
            invariant(data, model, where + " (after assignment)")      # before any use of nrow: it raises on ragged frames
            if ln in ("scalar", 1) and data.nrow >= 1 and not _identical(data[name], data.nrow):
                raise Violation(f"{where}: scalar / length-1 value was not broadcast to nrow identical cells")
            ctx.cls("assignment_ok_" + str(s["value"]["how"]))
        elif op in ("delitem", "delattr", "pop", "popitem"):
            if not names:
                continue
            name = pick()
            if op == "delattr" and (not name.isidentifier() or name in BUILTIN):
                continue
            if op == "popitem":
                name = names[-1]
            try:
                if op == "delitem":
                    del data[name]
                elif op == "delattr":
                    delattr(data, name)
                elif op == "pop":
                    data.pop(name)
                else:
                    data.popitem()
            except Exception as e:
                raise Violation(f"{where} raised", exc=f"{type(e).__name__}: {e}")
            if model.names is not None:
                model.names = [x for x in model.names if x != name]
            model.removed.add(name)
        elif op == "colnames":
            if not names:
                continue
            how = s["how"]
            if how == "fresh":
                new = [f"n{j}" for j in range(len(names))]
            elif how == "permute":
                new = names[s["a"] % len(names):] + names[:s["a"] % len(names)]
            elif how == "clash":
                new = [(gen.NAMES_CLASH + gen.NAMES_NONID)[(s["a"] + j) % 14] for j in range(len(names))]
                new = list(dict.fromkeys(new))
                new = new + [f"z{j}" for j in range(len(names) - len(new))]
            elif how == "shorter":
                new = [f"h{j}" for j in range(s["a"] % len(names))]     # fewer names than columns: the rest keep theirs
            else:
                new = [x if j % 2 else f"p{j}" for j, x in enumerate(names)]
            # names are unique within a call, incl. the names kept by a shorter list (dict semantics otherwise)
            seen = set(names[len(new):]) if len(new) < len(names) else set()
            for j, x in enumerate(new):
                while new[j] in seen:
                    new[j] = new[j] + "_"
                seen.add(new[j])
            before = [build.snap_array(v) for v in dict.values(data)]
            try:
                data.colnames = new
            except Exception as e:
                raise Violation(f"{where} raised", exc=f"{type(e).__name__}: {e}")
            final = list(new) + names[len(new):]
            if len(set(final)) != len(final):
                final = None                                   # a kept name equals a new one: order not modelled
            model.names = final
            model.removed |= set(names) - set(final or dict.keys(data))
            model.removed -= set(final or dict.keys(data))
            if len(dict.keys(data)) != len(names) and final is not None:
                raise Violation(f"{where}: colnames assignment changed the number of columns", before=names,
                                assigned=new, after=list(dict.keys(data)))
            after = [build.snap_array(v) for v in dict.values(data)]
            if after != before:
                raise Violation(f"{where}: colnames assignment changed column contents or positions",
                                old_names=names, new_names=new, before=[b[:3] for b in before], after=[b[:3] for b in after])
        elif op in TRANSFORM:
            try:
                with contextlib.redirect_stdout(io.StringIO()):
                    result, rnames = _transform(op, data, other, s, names, n, z=pool[(s["i"] + s["j"] + s["a"]) % len(pool)][0])
            except _Skip:
                continue
            except (Violation, NameError, UnboundLocalError):
                raise                                  # (a NameError is the harness's own, never the library's answer)
            except Exception as e:
                ctx.reject(f"{op} raises on these operands: {type(e).__name__}")
                data._group_colnames = ()
                invariant(data, model, where + " (receiver after a raising call)")
                continue
            rmodel = Model(rnames)
        elif op in CONVERT:
            if not names or n == 0:
                continue
            try:
                result = _convert(op, data, ctx)
            except Exception as e:
                ctx.reject(f"{op} round trip raises: {type(e).__name__}")
                continue
            rmodel = Model(None if op == "csv" else list(names))
        else:
            raise AssertionError(op)
        executed += 1
        ctx.cls("op_" + op)
        invariant(data, model, where + " (receiver)")
        invariant(other, omodel, where + " (argument)")
        if result is not None:
            invariant(result, rmodel, where + " (result)")
            rmodel.names = list(dict.keys(result))
            pool.append((result, rmodel))
            if result.nrow == 0:
                ctx.cls("reached_zero_rows")
            if result.ncol == 0:
                ctx.cls("reached_zero_columns")
    ctx.cls(f"executed_steps_{min(executed // 5 * 5, 20)}+")


class _Skip(Exception):
    pass


def _transform(op, x, y, s, names, n, z=None):
    a = s["a"]
    first = names[0] if names else None
    if op in ("copy", "deepcopy"):
        return getattr(x, op)(), list(names)
    if op == "rbind":
        # the column order of the result is defined: the receiver's columns, then the other frame's new ones in their order
        ynames = list(dict.keys(y))
        return x.rbind(y), list(names) + [c for c in ynames if c not in names]
    if op in ("cbind", "update"):
        if op == "cbind" and z is not None and a % 2:
            # several frames bound at once, now and then onto a receiver without columns: the bound frames then have to
            # agree among themselves (equal lengths, or one row to broadcast)
            recv = di.DataFrame() if a % 4 == 3 else x
            out = recv.cbind(y, z)
            if recv is not x:
                return out, None
        else:
            out = x.cbind(y) if op == "cbind" else x.update(y)
        # an operand whose row count is neither nrow nor 1 must be rejected when it contributes a column;
        # whatever happens, the receiver's own columns are never broadcast to someone else's length
        if names and out.nrow != n and any(c in x and len(dict.__getitem__(out, c)) != n for c in dict.keys(out)):
            raise Violation(f"{op} changed the row count of the receiver's own columns instead of rejecting the operand",
                            receiver_rows=n, operand_rows=y.nrow, result_rows=out.nrow)
        return out, None
    if not names:
        raise _Skip()
    if op == "filter": return x.filter(np.array([(i + a) % 3 != 0 for i in range(n)], dtype=bool)), list(names)
    if op == "slice": return x.slice(rows=[i for i in range(n) if (i + a) % 2 == 0]), list(names)
    if op == "head": return x.head(a), list(names)
    if op == "tail": return x.tail(a), list(names)
    if op == "drop_na": return x.drop_na(names[a % len(names)]), list(names)
    if op == "sample":
        np.random.seed(a)
        return x.sample(max(a, 1)), list(names)
    if op == "unique": return x.unique(*names[:a % 3]), list(names)
    if op == "sort": return x.sort(**{names[a % len(names)]: 1 if a % 2 else -1}), list(names)
    if op == "select":
        sel = names[a % len(names):] + names[:a % len(names)]
        sel = sel[:1 + a % len(names)]
        return x.select(*sel), sel
    if op == "unselect":
        drop = names[:a % (len(names) + 1)]
        return x.unselect(*drop), [c for c in names if c not in drop]
    if op == "rename":
        old = names[a % len(names)]
        new = s["name"] if s["name"] not in names else old
        return x.rename(**{new: old}), [new if c == old else c for c in names]
    if op == "modify":
        val, ln = _mk_value(s["value"], n)
        if ln == "zerod":
            try:
                out = x.modify(**{s["name"]: val})
            except Exception:
                raise _Skip()
            return out, None
        if ln not in ("scalar", 1, n) or (ln in ("scalar", 1) and n == 0):
            raise _Skip()
        nm = s["name"]
        return x.modify(**{nm: val}), list(names) + ([nm] if nm not in names else [])
    if op == "modify_callable":
        nm = s["name"]
        return x.modify(**{nm: lambda d: d[first]}), list(names) + ([nm] if nm not in names else [])
    if op == "modify_grouped":
        if n == 0:
            raise _Skip()
        if a % 2 == 0 and n >= 2:
            # the group-wise function hands back a *column* of a foreign length (twice the group / the whole outer
            # column): any other length mismatch must be rejected, never stored misaligned
            twice = (a // 2) % 2
            bad = (lambda d: d[first].concat(d[first])) if twice else (lambda d: x[first])
            try:
                out = x.group_by(first).modify(bad=bad)
            except Exception:
                x._group_colnames = ()
                raise _Skip()
            x._group_colnames = ()
            groups = len(model.groups([build.cells(x[first])]))      # 0.0 and -0.0 are one key
            if twice or groups > 1:
                raise Violation("grouped modify stored a group-wise result whose length differs from its group",
                                nrow=n, groups=groups, stored=len(dict.__getitem__(out, "bad")))
            return out, None
        if a % 4 == 1 and len(names) >= 2:
            # the group-wise edit replaces a column that is already there (not the last one): it keeps its place
            target = names[(a // 4) % (len(names) - 1)]
            try:
                out = x.group_by(first).modify(**{target: lambda d: d[target]})
            finally:
                x._group_colnames = ()
            return out, list(names)
        out = x.group_by(first).modify(gsize=lambda d: d.nrow)
        x._group_colnames = ()
        return out, list(names) + (["gsize"] if "gsize" not in names else [])
    if op in ("left_join", "inner_join", "semi_join", "anti_join", "full_join"):
        common = [c for c in names if c in y]
        if not common:
            raise _Skip()
        key = common[a % len(common)]
        if x[key].dtype != y[key].dtype:
            raise _Skip()
        out = getattr(x, op)(y, key)
        return out, (list(names) if op in ("semi_join", "anti_join") else None)
    if op == "aggregate":
        out = x.group_by(first).aggregate(n=di.count())
        x._group_colnames = ()
        return out, [first, "n"] if first != "n" else None
    if op == "count":
        return x.count(first), [first, "n"] if first != "n" else None
    raise AssertionError(op)


def _convert(op, x, ctx):
    if op == "lod": return x.to_list_of_dicts().to_data_frame()
    if op == "json": return di.DataFrame.from_json(x.to_json())
    if op == "pandas": return di.DataFrame.from_pandas(x.to_pandas())
    if op == "arrow": return di.DataFrame.from_arrow(x.to_arrow())
    ext = {"csv": ".csv", "json_file": ".json", "npz": ".npz", "parquet": ".parquet", "pickle": ".pkl"}[op]
    path = ctx.path("frame" + ext)
    fmt = "json" if op == "json_file" else op
    getattr(x, "write_" + fmt)(path)
    return getattr(di.DataFrame, "read_" + fmt)(path)


KNOWN = {}
