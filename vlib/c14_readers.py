# -*- coding: utf-8 -*-
"""C14 — restricting or aliasing a read never changes what is read."""

import inspect
import json

import numpy as np
import dataiter as di
from hypothesis import strategies as st

from . import build, gen
from .runner import Violation

ID = "C14"
RULE = ("plan = file of one format (DataFrame csv / json / parquet / npz, GeoJSON, ListOfDicts json / csv) written from a "
        "generated table (1..6 rows, 2..5 columns of int/float/bool/str, cast columns without missing cells) + a kwargs plan: "
        "columns/keys = subset in arbitrary order, dtypes/types over the selected names with safe casts (int->float, "
        "int->str, x->object; types float/str), csv sep/header/encoding, json encoding and parse_int, npz allow_pickle. "
        "Oracle: three-way agreement alias function == class method (names, order, dtypes, cells, or the same exception type) "
        "== read-everything-then-select-and-cast (per name). The plan's keywords are checked against inspect.signature of "
        "every alias so that a new keyword cannot go untested. Non-trivial: a restriction in non-file order, or a dtype/type "
        "map, or a non-default keyword. Distinct = plan hash.")
CASES = {"quick": 1500, "thorough": 8000}

ALIAS_KEYWORDS = {
    "read_csv": {"encoding", "sep", "header", "columns", "dtypes"},
    "read_json": {"encoding", "keys", "types", "kwargs"},
    "read_geojson": {"encoding", "columns", "dtypes", "kwargs"},
    "read_npz": {"allow_pickle"},
    "read_parquet": {"columns", "dtypes"},
}
FORMATS = ["csv", "csv", "json", "parquet", "parquet", "npz", "geojson", "lod_json", "lod_csv"]
NAMES = ["a", "b", "c", "d", "e"]


@st.composite
def _plan(draw):
    fmt = draw(st.sampled_from(FORMATS))
    n = draw(st.integers(1, 6))
    k = draw(st.integers(2, 5))
    names = NAMES[:k]
    cols = []
    for nm in names:
        kind = draw(st.sampled_from(["i", "i", "f", "b", "s"] + (["d", "t", "t"] if fmt in ("csv", "parquet") else [])
                                    + (["td"] if fmt == "parquet" else [])))
        if kind in ("d", "t", "td"):
            # temporal columns (the formats that have them): a dtype map may ask for another unit of the same family
            pool = {"d": ["2020-12-31", "1969-12-31", "2024-02-29"],
                    "t": ["2020-12-31T12:34:56", "1969-12-31T23:59:59", "2024-02-29T00:00:01"],
                    "td": [0, 1, 86399, -5, 90061]}[kind]
            vals = [draw(st.sampled_from(pool)) for _ in range(n)]
        elif kind == "i":
            vals = [draw(st.sampled_from([0, 1, 2, -7, 2**40])) for _ in range(n)]
        elif kind == "f":
            vals = [draw(st.sampled_from([0.5, -1.25, 2.5, 1e10])) for _ in range(n)]
        elif kind == "b":
            vals = [draw(st.booleans()) for _ in range(n)]
        else:
            vals = [draw(st.sampled_from(["xa", "xb", "xé", "x y"])) for _ in range(n)]
        cols.append({"name": nm, "kind": kind, "vals": vals})
    kw = {}
    if fmt != "npz" and draw(st.integers(0, 3)):
        sub = list(draw(st.permutations(names)))[:draw(st.integers(1, k))]
        kw["columns"] = sub
    sel = kw.get("columns", names)
    if fmt != "npz" and draw(st.booleans()):
        m = {}
        for nm in sel:
            kind = next(c["kind"] for c in cols if c["name"] == nm)
            if draw(st.integers(0, 2)) == 0 or (fmt == "lod_csv" and draw(st.booleans())):
                if fmt in ("lod_json", "lod_csv"):
                    m[nm] = "str" if kind not in ("i", "f") or draw(st.integers(0, 2)) == 0 else "float"
                    if fmt == "lod_json" and kind in ("b", "i") and draw(st.booleans()):
                        m[nm] = "int"                 # int(True) is 1: a cast is applied even where isinstance already holds
                else:
                    choices = {"i": ["float", "str", "object"], "f": ["object", "float"], "b": ["object"],
                               "s": ["object", "str"], "d": ["datetime64[us]", "datetime64[s]", "datetime64[D]", "object"],
                               "t": ["datetime64[D]", "datetime64[s]", "datetime64[h]", "datetime64[us]", "object"],
                               "td": ["timedelta64[m]", "timedelta64[s]", "timedelta64[D]", "object"]}[kind]
                    m[nm] = draw(st.sampled_from(choices))
        if m:
            kw["dtypes"] = m
    if fmt != "npz" and draw(st.integers(0, 4)) == 0:
        # the combination both options at once, a dropped column lying left of a typed one (positions shift)
        d = draw(st.integers(0, k - 2))
        t = draw(st.integers(d + 1, k - 1))
        keep = [nm for j, nm in enumerate(names) if j != d and (j == t or draw(st.integers(0, 3)))]
        kw["columns"] = list(draw(st.permutations(keep)))
        kind = cols[t]["kind"]
        if fmt in ("lod_json", "lod_csv"):
            cast = "float" if kind in ("i", "f") else "str"
        else:
            cast = {"i": "float", "f": "object", "b": "object", "s": "object", "d": "datetime64[s]", "t": "datetime64[D]",
                    "td": "timedelta64[m]"}[kind]
        kw["dtypes"] = {names[t]: cast}
    blank = None
    if fmt == "csv" and n and draw(st.integers(0, 4)) == 0:
        # one column without a single value (every cell blank): still a column of the file, selectable like the others
        c = cols[draw(st.integers(0, k - 1))]
        c["kind"], c["vals"] = "f", [gen.NAN] * n
        blank = c["name"]
        if "dtypes" in kw:
            kw["dtypes"].pop(blank, None)
            if not kw["dtypes"]:
                del kw["dtypes"]
        if "columns" in kw and blank not in kw["columns"] and draw(st.booleans()):
            kw["columns"] = kw["columns"] + [blank]
    if fmt == "csv" and blank is None and all(c["kind"] in ("i", "f", "b", "s") for c in cols) and draw(st.integers(0, 2)) == 0:
        kw["raw_csv"] = True
    if fmt in ("csv", "lod_csv") and draw(st.integers(0, 4)) == 0:
        # header cells with leading / trailing blanks are names like any other
        pad = [" a", "b ", " c ", "d", " e"]
        ren = {c["name"]: pad[j] for j, c in enumerate(cols)}
        for c in cols:
            c["name"] = ren[c["name"]]
        names = [ren[x] for x in names]
        if "columns" in kw:
            kw["columns"] = [ren[x] for x in kw["columns"]]
        if "dtypes" in kw:
            kw["dtypes"] = {ren[k_]: v_ for k_, v_ in kw["dtypes"].items()}
    if fmt in ("csv", "lod_csv"):
        if draw(st.integers(0, 2)) == 0:
            kw["sep"] = draw(st.sampled_from([";", "\t", "|"]))
        if draw(st.integers(0, 3)) == 0 and "columns" not in kw:
            kw["header"] = False                  # generated names a, b, ... coincide with the written names
    if fmt == "csv" and not kw.get("raw_csv") and draw(st.integers(0, 2)) == 0:
        kw["suffix"] = draw(st.sampled_from([".gz", ".bz2", ".xz"]))
    if fmt in ("csv", "json", "geojson", "lod_json", "lod_csv") and draw(st.integers(0, 2)) == 0:
        kw["encoding"] = draw(st.sampled_from(["latin-1", "utf-16", "utf-8"]))
    if fmt in ("geojson", "lod_json") and draw(st.integers(0, 3)) == 0:
        kw["parse_int_float"] = True
    if fmt == "npz" and draw(st.booleans()):
        kw["allow_pickle"] = draw(st.booleans())
    if fmt == "parquet" and draw(st.integers(0, 3)) == 0:
        # a file produced by another tool: float NaN stored as a *value*, not as a null; a dtype map onto a type that
        # can hold missing values must still report those cells missing
        kw["raw_nan"] = draw(st.sampled_from(["str", "object"]))
        kw.pop("dtypes", None)
    if fmt == "json" and n >= 2 and draw(st.booleans()):
        kw["shuffled"] = True
    if fmt in ("geojson", "lod_json") and n >= 2 and draw(st.integers(0, 2)) == 0:
        # files not written by the library itself: the first feature(s) / item(s) lack some of the properties / keys
        # (every property still occurs in the last feature, so that naming it stays meaningful)
        kw["ragged"] = [draw(st.integers(1, n - 1)), [nm for nm in names if draw(st.booleans())]]
        for nm in kw["ragged"][1]:
            # no cast for a column that thereby has missing cells: read-everything promotes int -> float first, so
            # "cast afterwards" and "typed read" legitimately spell the other cells differently ('0.0' / '0')
            kw.get("dtypes", {}).pop(nm, None)
        if not kw.get("dtypes", True):
            kw.pop("dtypes")
    if fmt == "lod_json" and draw(st.integers(0, 1)) == 0:
        # one key holding equal values of different types (1, 1.0, true): a converter such as str tells them apart
        j = draw(st.integers(0, k - 1))
        cols[j]["kind"] = "m"
        cols[j]["vals"] = [draw(st.sampled_from([1, 1.0, True, 0, 0.0, False, 2.5, -0.0])) for _ in range(n)]
        if names[j] in kw.get("columns", names):
            kw.setdefault("dtypes", {})[names[j]] = "str"
    if fmt == "lod_json" and draw(st.integers(0, 2)) == 0:
        kw["nested"] = True
        kw.get("dtypes", {}).pop(names[-1], None)
    return {"fmt": fmt, "frame": {"n": n, "cols": cols}, "kw": kw}


def strategy(tier):
    return _plan()


def nontrivial(plan):
    kw = plan["kw"]
    names = [c["name"] for c in plan["frame"]["cols"]]
    if "columns" in kw and kw["columns"] != [x for x in names if x in kw["columns"]]:
        return True
    return bool(set(kw) - {"columns", "nested"}) or ("nested" in kw and "columns" in kw)     # raw_nan counts as an option


_DT = {"float": float, "str": str, "object": object, "datetime64[us]": "datetime64[us]", "datetime64[s]": "datetime64[s]",
       "datetime64[D]": "datetime64[D]", "datetime64[h]": "datetime64[h]", "timedelta64[m]": "timedelta64[m]",
       "timedelta64[s]": "timedelta64[s]", "timedelta64[D]": "timedelta64[D]"}


def _write(plan, ctx):
    fmt, fp, kw = plan["fmt"], plan["frame"], plan["kw"]
    enc = kw.get("encoding", "utf-8")
    data = build.frame(fp, rid=None) if fmt in ("csv", "json", "parquet", "npz") else None
    if fmt == "csv" and kw.get("raw_csv"):
        # a file from another tool: zero-padded integers, floats with trailing zeros, lower-case booleans - the cell
        # text is not the canonical rendering of the parsed value
        path = ctx.path("t.csv")
        def cell(kind, v):
            if kind == "i" and isinstance(v, int) and 0 <= v < 10**6:
                return "%04d" % v
            if kind == "f" and float(v) == round(float(v), 2) and abs(v) < 1e6:
                return "%.2f" % v
            if kind == "b":
                return "true" if v else "false"
            return str(v)
        sep = kw.get("sep", ",")
        lines = [sep.join(c["name"] for c in fp["cols"])] if kw.get("header", True) else []
        lines += [sep.join(cell(c["kind"], c["vals"][i]) for c in fp["cols"]) for i in range(fp["n"])]
        with open(path, "w", encoding=enc, newline="") as f:
            f.write("\n".join(lines) + "\n")
    elif fmt == "csv":
        path = ctx.path("t.csv" + kw.get("suffix", ""))            # now and then a compressed file (.gz / .bz2 / .xz)
        data.write_csv(path, encoding=enc, sep=kw.get("sep", ","), header=kw.get("header", True))
    elif fmt == "json":
        path = ctx.path("t.json")
        data.write_json(path, encoding=enc)
        if kw.get("shuffled"):
            # a file from elsewhere: the same objects, every other one with its keys in reverse order
            with open(path, encoding=enc) as f:
                objs = json.load(f)
            objs = [dict(reversed(list(o.items()))) if j % 2 else o for j, o in enumerate(objs)]
            with open(path, "w", encoding=enc) as f:
                json.dump(objs, f, ensure_ascii=False)
    elif fmt == "parquet":
        path = ctx.path("t.parquet")
        data.write_parquet(path)
    elif fmt == "npz":
        path = ctx.path("t.npz")
        data.write_npz(path)
    elif fmt == "geojson":
        path = ctx.path("t.geojson")
        feats = []
        for i in range(fp["n"]):
            props = {c["name"]: c["vals"][i] for c in fp["cols"]}
            if kw.get("ragged") and i < kw["ragged"][0]:
                props = {k_: v_ for k_, v_ in props.items() if k_ not in kw["ragged"][1]}
            feats.append({"type": "Feature", "properties": props, "geometry": {"type": "Point", "coordinates": [i, 0]}})
        with open(path, "w", encoding=enc) as f:
            json.dump({"type": "FeatureCollection", "features": feats, "name": "t"}, f, ensure_ascii=False)
    elif fmt == "lod_json":
        path = ctx.path("l.json")
        items = [{c["name"]: c["vals"][i] for c in fp["cols"]} for i in range(fp["n"])]
        if kw.get("ragged"):
            items = [{k_: v_ for k_, v_ in it.items() if not (i < kw["ragged"][0] and k_ in kw["ragged"][1])}
                     for i, it in enumerate(items)]
        if kw.get("nested"):
            for i, it in enumerate(items):
                # a nested object whose inner keys overlap the outer key names
                it[fp["cols"][-1]["name"]] = {"a": i, "b": {"a": 1, "zz": None}, "lat": 0.5}
        with open(path, "w", encoding=enc) as f:
            json.dump(items, f, ensure_ascii=False)
    elif fmt == "lod_csv":
        path = ctx.path("l.csv")
        lod = di.ListOfDicts([{c["name"]: str(c["vals"][i]) for c in fp["cols"]} for i in range(fp["n"])])
        lod.write_csv(path, encoding=enc, sep=kw.get("sep", ","), header=kw.get("header", True))
    return path


def _kwargs(plan, restrict=True):
    fmt, kw = plan["fmt"], plan["kw"]
    lod = fmt.startswith("lod_")
    out = {}
    if restrict and "columns" in kw:
        out["keys" if lod else "columns"] = list(kw["columns"])
    if restrict and "dtypes" in kw:
        if lod:
            out["types"] = {k: {"float": float, "str": str, "int": int}[v] for k, v in kw["dtypes"].items()}
        else:
            out["dtypes"] = {k: _DT[v] for k, v in kw["dtypes"].items()}
    for k in ("sep", "header", "encoding", "allow_pickle"):      # ("nested" only shapes the file)
        if k in kw:
            out[k] = kw[k]
    if kw.get("parse_int_float"):
        out["parse_int"] = float
    return out


def _targets(fmt):
    """(alias or None, class method)"""
    return {
        "csv": (di.read_csv, di.DataFrame.read_csv), "json": (None, di.DataFrame.read_json),
        "parquet": (di.read_parquet, di.DataFrame.read_parquet), "npz": (di.read_npz, di.DataFrame.read_npz),
        "geojson": (di.read_geojson, di.GeoJSON.read), "lod_json": (di.read_json, di.ListOfDicts.read_json),
        "lod_csv": (None, di.ListOfDicts.read_csv),
    }[fmt]


def _describe(x):
    """Comparable description of a read result."""
    if isinstance(x, di.DataFrame):
        d = {"type": type(x).__name__, "names": list(dict.keys(x)),
             "cols": {k: (build.dtype_tag(v), [repr(c) for c in build.cells(v)]) for k, v in dict.items(x)}}
        if isinstance(x, di.GeoJSON):
            d["metadata"] = repr(dict(x.metadata))
        return d
    if isinstance(x, di.ListOfDicts):
        return {"type": "ListOfDicts", "items": [[(k, type(v).__name__, repr(v)) for k, v in it.items()] for it in x]}
    return {"type": str(type(x))}


def _try(f, *a, **k):
    try:
        return ("ok", f(*a, **k))
    except Exception as e:
        return ("exc", type(e).__name__, str(e)[:200])


def check(plan, ctx):
    for name, kws in ALIAS_KEYWORDS.items():
        sig = inspect.signature(getattr(di, name))
        have = {p.name for p in sig.parameters.values() if p.kind in (p.KEYWORD_ONLY, p.VAR_KEYWORD)}
        if have != kws:
            raise RuntimeError(f"alias {name} has keywords {sorted(have)}; the plan covers {sorted(kws)}: extend the check")
    fmt, kw = plan["fmt"], plan["kw"]
    ctx.cls("fmt_" + fmt, *("kw_" + k for k in kw))
    order = [c["name"] for c in plan["frame"]["cols"]]
    if "columns" in kw and any(order.index(k) > min([order.index(x) for x in order if x not in kw["columns"]] or [99])
                               for k in kw.get("dtypes", {})):
        ctx.cls("typed_column_right_of_a_dropped_one", f"typed_right_of_dropped_{fmt}")
    if kw.get("raw_nan"):
        return _check_raw_nan(plan, ctx)
    path = _write(plan, ctx)
    alias, method = _targets(fmt)
    kwargs = _kwargs(plan)
    frozen = repr(sorted((k, repr(v)) for k, v in kwargs.items()))
    m = _try(method, path, **kwargs)
    if repr(sorted((k, repr(v)) for k, v in kwargs.items())) != frozen:
        raise Violation("a reader changed the argument objects it was given (columns / dtypes / keys / types)",
                        before=frozen, after=repr(sorted((k, repr(v)) for k, v in kwargs.items())))
    m2 = _try(method, path, **kwargs)
    if m[0] == "ok" and (m2[0] != "ok" or _describe(m2[1]) != _describe(m[1])):
        raise Violation("reading the same file twice with the same argument objects gives different results",
                        first=_describe(m[1]), second=_describe(m2[1]) if m2[0] == "ok" else m2[1:])
    if alias is not None:
        a = _try(alias, path, **kwargs)
        if a[0] != m[0] or (a[0] == "exc" and a[1] != m[1]):
            raise Violation("alias function and class method disagree on success / exception type", alias=a[:3] if a[0] == "exc" else "ok",
                            method=m[:3] if m[0] == "exc" else "ok", kwargs=sorted(kwargs))
        if a[0] == "ok" and _describe(a[1]) != _describe(m[1]):
            raise Violation("alias function returns something else than the class method for the same arguments",
                            kwargs={k: repr(v) for k, v in kwargs.items()}, alias=_describe(a[1]), method=_describe(m[1]))
        ctx.cls("alias_compared")
    if m[0] == "exc":
        # a restricted / typed read may only fail where reading everything and then selecting and casting fails too
        ref = _try(_reference_only, plan, method, path)
        if ref[0] == "ok":
            raise Violation("restricted / typed read raises although read-everything-then-select-and-cast succeeds",
                            kwargs={k: repr(v) for k, v in kwargs.items()}, exc=m[1:])
        ctx.reject(f"reader raises for these arguments: {fmt} {m[1]}")
        return
    got = m[1]
    # ---- reference: read everything, then select and cast ----
    full = _try(method, path, **_kwargs(plan, restrict=False))
    if full[0] != "ok":
        raise Violation("reading everything fails although the restricted read succeeds", exc=full[1:])
    full = full[1]
    want_names = kw.get("columns")
    casts = kw.get("dtypes", {})
    if fmt.startswith("lod_"):
        types = {"float": float, "str": str, "int": int}
        want = []
        for it in full:
            d = {k: v for k, v in it.items() if want_names is None or k in want_names}
            for k, t in casts.items():
                if k in d:
                    d[k] = types[t](d[k])
            want.append(d)
        gotl = [dict(x) for x in got]
        typed = lambda d: sorted((k, type(v).__name__, repr(v)) for k, v in d.items())
        if len(gotl) != len(want) or [typed(x) for x in gotl] != [typed(x) for x in want]:
            raise Violation("restricted / typed read differs from read-everything-then-select-and-cast",
                            kwargs={k: repr(v) for k, v in kwargs.items()}, got=gotl[:3], want=want[:3])
        return
    sel = list(dict.keys(full)) if want_names is None else [x for x in dict.keys(full) if x in want_names]
    if fmt == "geojson" and "geometry" not in sel:
        sel.append("geometry")
    if sorted(dict.keys(got)) != sorted(sel):
        raise Violation("restricted read returns a different set of columns", got=list(dict.keys(got)), want=sel)
    for cn in sel:
        ref = full[cn]
        if cn in casts:
            ref = di.Vector(ref, _DT[casts[cn]])
        a, b = build.cells(got[cn]), build.cells(ref)
        if cn in casts and len(a) == len(b):
            # a cell that is missing before the cast: how a cast spells a missing value (NaN -> 'nan', '' -> '') is not
            # the reader's business; there the typed read may show the cast's spelling or a missing value
            miss = [c is None for c in build.cells(full[cn])]
            a = [y if (m and x is None) else x for x, y, m in zip(a, b, miss)]
        if len(a) != len(b) or not all(build.same_cell(x, y) if not isinstance(x, dict) else x == y for x, y in zip(a, b)):
            raise Violation("a value did not stay under its own name / differs from select-and-cast", column=cn,
                            got=a, want=b, kwargs={k: repr(v) for k, v in kwargs.items()})
        if build.dtype_tag(got[cn]) != build.dtype_tag(ref):
            raise Violation("dtype differs from read-everything-then-cast", column=cn, got=build.dtype_tag(got[cn]),
                            want=build.dtype_tag(ref))


def _reference_only(plan, method, path):
    """read everything, select, cast - raising whatever those steps raise"""
    fmt, kw = plan["fmt"], plan["kw"]
    full = method(path, **_kwargs(plan, restrict=False))
    want_names = kw.get("columns")
    casts = kw.get("dtypes", {})
    if fmt.startswith("lod_"):
        types = {"float": float, "str": str, "int": int}
        out = []
        for it in full:
            d = {k: v for k, v in it.items() if want_names is None or k in want_names}
            for k, t in casts.items():
                if k in d:
                    d[k] = types[t](d[k])
            out.append(d)
        return out
    for cn in casts:
        full[cn]                                   # casting a column that is not there fails in the reference too
    return {cn: (di.Vector(full[cn], _DT[casts[cn]]) if cn in casts else full[cn])
            for cn in dict.keys(full) if want_names is None or cn in want_names}


def _check_raw_nan(plan, ctx):
    import pyarrow as pa
    import pyarrow.parquet as pq
    n = plan["frame"]["n"]
    x = np.array([float("nan") if i % 2 == 0 else 1.5 + i for i in range(n)], dtype=np.float64)
    y = np.arange(n, dtype=np.int64)
    path = ctx.path("raw.parquet")
    pq.write_table(pa.table({"x": pa.array(x, from_pandas=False), "y": pa.array(y)}), path)
    target = {"str": str, "object": object}[plan["kw"]["raw_nan"]]
    cols = plan["kw"].get("columns")
    sel = {"columns": ["x"] if cols and len(cols) % 2 else ["y", "x"]} if cols else {}
    for label, reader in (("DataFrame.read_parquet", di.DataFrame.read_parquet), ("di.read_parquet", di.read_parquet)):
        plain = ctx.call(label, reader, path, **sel)
        typed = ctx.call(label + "(dtypes)", reader, path, dtypes={"x": target}, **sel)
        a = [bool(b) for b in np.asarray(plain["x"].is_na())]
        b = [bool(v) for v in np.asarray(typed["x"].is_na())]
        if a != [i % 2 == 0 for i in range(n)]:
            raise Violation(f"{label}: NaN cells of a float column are not reported missing", got=a)
        if b != a:
            raise Violation(f"{label}: with a dtype map the missing cells of the column differ from those of the plain read",
                            dtype=plan["kw"]["raw_nan"], plain=a, typed=b, cells=build.cells(typed["x"]))
    ctx.cls("raw_nan_checked")


KNOWN = {}
