#!/bin/bash
# usage: tools/replay_at.sh <repo-commit> <property> <replay.json> ...
# Runs replays against a scratch worktree of /repo at <commit> (expected: VIOLATION before a fix).
set -u
commit=$1; pid=$2; shift 2
wt=$(mktemp -d /tmp/replay-at-XXXXXX)
git -C /repo worktree add -q --detach "$wt" "$commit" || exit 2
for r in "$@"; do
  VERIF_REPO="$wt" /verif/check "$pid" --replay "$r" | tail -2
done
git -C /repo worktree remove --force "$wt"
