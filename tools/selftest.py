#!/venv/bin/python
"""
Sensitivity self-test: apply each mutant (mutants/<pid>/*.patch, or seeded/<name>/patch.diff) to a scratch
worktree of /repo, run the property's quick check with VERIF_REPO pointing there, expect exit 1 (VIOLATION).

    tools/selftest.py [pid ...]          all mutants of the given properties (default: all)
"""
import glob, json, os, subprocess, sys, tempfile, shutil
from concurrent.futures import ThreadPoolExecutor
ROOT = os.path.dirname(os.path.dirname(os.path.abspath(__file__)))

def one(job):
    pid, patch = job
    wt = tempfile.mkdtemp(prefix="selftest-")
    try:
        # scratch copy of /repo's HEAD (plain export: parallel-safe, no worktree bookkeeping)
        subprocess.run(f"git -C /repo archive HEAD dataiter | tar -x -C {wt}", shell=True, check=True)
        r = subprocess.run(["git", "apply", "--unsafe-paths", "--directory", wt, patch], capture_output=True, text=True, cwd=wt)
        if r.returncode:
            return (pid, patch, "PATCH-FAILED", r.stderr.strip()[:200])
        env = dict(os.environ, VERIF_REPO=wt)
        r = subprocess.run([os.path.join(ROOT, "check"), pid, "--tier", "quick"], capture_output=True, text=True, env=env)
        detail = [l for l in r.stdout.splitlines() if l.startswith("detail:")]
        status = {0: "MISSED", 1: "caught", 2: "HARNESS-ERROR"}.get(r.returncode, f"rc={r.returncode}")
        if r.returncode == 2:
            open(os.path.join("/tmp", "selftest-harness-" + os.path.basename(os.path.dirname(patch)) + "-" + os.path.basename(patch) + ".log"), "w").write(r.stdout + "\n=== stderr ===\n" + r.stderr)
        return (pid, patch, status, (detail[0][:160] if detail else r.stdout.strip().splitlines()[-1][:160] if r.stdout.strip() else ""))
    finally:
        shutil.rmtree(wt, ignore_errors=True)

def main():
    pids = sys.argv[1:]
    jobs = []
    for p in sorted(glob.glob(os.path.join(ROOT, "mutants", "*", "*.patch"))):
        pid = os.path.basename(os.path.dirname(p))
        if not pids or pid in pids:
            jobs.append((pid, p))
    for m in sorted(glob.glob(os.path.join(ROOT, "seeded", "*", "meta.json"))):
        meta = json.load(open(m))
        if meta.get("retired"):
            print(f"retired        {os.path.relpath(os.path.dirname(m), ROOT)}")
            continue
        for pid in meta.get("checks", [meta["property"]]):
            if not pids or pid in pids:
                jobs.append((pid, os.path.join(os.path.dirname(m), "patch.diff")))
    bad = 0
    with ThreadPoolExecutor(5) as ex:
        for pid, patch, status, info in ex.map(one, jobs):
            print(f"{status:14s} {pid} {os.path.relpath(patch, ROOT)}  {info}")
            bad += status != "caught"
            meta = os.path.join(os.path.dirname(patch), "meta.json")
            if os.path.basename(patch) == "patch.diff" and os.path.exists(meta):
                m = json.load(open(meta))              # keep the seeded change's record of the latest verdict current
                m["check_result"] = {"cmd": f"VERIF_REPO=<patched copy> ./check {pid} --tier quick",
                                     "exit": {"caught": 1, "MISSED": 0}.get(status, 2), "caught": status == "caught", "detail": info}
                json.dump(m, open(meta, "w"), indent=1)
    print(f"{len(jobs) - bad}/{len(jobs)} mutants caught")
    return 1 if bad else 0

sys.exit(main())
