#!/venv/bin/python
"""Run the repository's pinned test suite (guard off) and compare with BASELINE.json's stable_pass list."""
import json, os, subprocess, sys, tempfile, xml.etree.ElementTree as ET
base = json.load(open("/root/.vp/BASELINE.json"))
out = tempfile.mktemp(suffix=".xml", prefix="baseline-")
env = dict(os.environ); env.pop("DATAITER_VERIF", None)
env["NUMBA_CACHE_DIR"] = tempfile.mkdtemp(prefix="nbcache-")
env["TMPDIR"] = tempfile.mkdtemp(prefix="suite-tmp-")      # the suite leaves ~35 MB of temp files behind per run
cmd = base["cmd"].replace("<file>", out)
subprocess.run(cmd, shell=True, env=env, stdout=subprocess.DEVNULL, stderr=subprocess.DEVNULL)
passed = set()
for tc in ET.parse(out).getroot().iter("testcase"):
    if not any(ch.tag in ("failure", "error", "skipped") for ch in tc):
        passed.add(f'{tc.get("classname")}::{tc.get("name")}')
want = set(base["stable_pass"])
missing = sorted(want - passed)
print(f"baseline: {len(want & passed)}/{len(want)} stable tests pass; newly failing: {len(missing)}")
for m in missing[:20]: print("  FAIL", m)
os.remove(out)
import shutil; shutil.rmtree(env["NUMBA_CACHE_DIR"], ignore_errors=True); shutil.rmtree(env["TMPDIR"], ignore_errors=True)
sys.exit(1 if missing else 0)
