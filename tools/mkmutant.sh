#!/bin/bash
# usage: tools/mkmutant.sh <pid> <name> <file-relative-to-repo> <python-expr-old> <python-expr-new>
# Creates mutants/<pid>/<name>.patch by replacing one exact string occurrence in a scratch copy of the file.
set -eu
pid=$1; name=$2; file=$3; old=$4; new=$5
mkdir -p /verif/mutants/$pid
tmp=$(mktemp -d /tmp/mkmut-XXXXXX)
mkdir -p $tmp/a/$(dirname $file) $tmp/b/$(dirname $file)
git -C /repo show HEAD:$file > $tmp/a/$file
OLD="$old" NEW="$new" /venv/bin/python - "$tmp/a/$file" "$tmp/b/$file" <<'PY'
import os, sys
s = open(sys.argv[1]).read(); old = os.environ["OLD"]; new = os.environ["NEW"]
n = s.count(old)
if n != 1: sys.exit(f"mkmutant: expected exactly one occurrence, found {n}: {old!r}")
open(sys.argv[2], "w").write(s.replace(old, new))
PY
(cd $tmp && diff -u a/$file b/$file > /verif/mutants/$pid/$name.patch) || true
rm -rf $tmp
echo "wrote mutants/$pid/$name.patch"
