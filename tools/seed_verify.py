#!/venv/bin/python
"""
Confirm a sub-agent's seeded change myself and file it under /verif/seeded/<id>-<letter>/.

    tools/seed_verify.py C03 A [C03 B ...]        (sources: /tmp/seed/<id>/_seed/patch_<L>.diff, demo_<L>.py, NOTES.md)

For each: export /repo HEAD to a scratch dir, apply the patch, run the pinned test suite there (all BASELINE stable tests
must still pass), run the demo against the patched copy (must exit 1) and against a clean copy (must exit 0), run the
property's quick check against the patched copy, then write patch.diff, demo.py and meta.json.
"""
import json, os, re, shutil, subprocess, sys, tempfile, xml.etree.ElementTree as ET
from concurrent.futures import ThreadPoolExecutor
ROOT = os.path.dirname(os.path.dirname(os.path.abspath(__file__)))
BASE = json.load(open("/root/.vp/BASELINE.json"))

def export(dst):
    os.makedirs(dst, exist_ok=True)
    subprocess.run(f"git -C /repo archive HEAD | tar -x -C {dst}", shell=True, check=True)

def run_suite(tree):
    out = tempfile.mktemp(suffix=".xml")
    env = dict(os.environ, PYTHONPATH=tree, NUMBA_CACHE_DIR=tempfile.mkdtemp(prefix="nbc-"), PYTHONDONTWRITEBYTECODE="1",
               TMPDIR=tempfile.mkdtemp(prefix="suite-tmp-"))     # the suite leaves ~35 MB of temp files behind per run
    cmd = ["/venv/bin/python", "-m", "pytest", "-q", "-p", "no:cacheprovider", "--timeout=900",
           "--continue-on-collection-errors", f"--junitxml={out}"]
    subprocess.run(cmd, cwd=tree, env=env, stdout=subprocess.DEVNULL, stderr=subprocess.DEVNULL)
    passed = set()
    for tc in ET.parse(out).getroot().iter("testcase"):
        if not any(ch.tag in ("failure", "error", "skipped") for ch in tc):
            passed.add(f'{tc.get("classname")}::{tc.get("name")}')
    os.remove(out); shutil.rmtree(env["NUMBA_CACHE_DIR"], ignore_errors=True); shutil.rmtree(env["TMPDIR"], ignore_errors=True)
    return sorted(set(BASE["stable_pass"]) - passed)

def run_demo(tree, demo, pid):
    env = dict(os.environ, PYTHONPATH=tree, PYTHONDONTWRITEBYTECODE="1")
    nbc = tempfile.mkdtemp(prefix="nbc-")
    env["NUMBA_CACHE_DIR"] = nbc
    env["DATAITER_USE_NUMBA"] = "true" if pid == "C08" else "false"
    r = subprocess.run(["/venv/bin/python", demo], cwd=tree, env=env, capture_output=True, text=True, timeout=1200)
    shutil.rmtree(nbc, ignore_errors=True)
    return r.returncode, (r.stdout + r.stderr)[-400:]

def one(job):
    pid, letter = job
    src = f"/tmp/seed/{pid}/_seed"
    patch, demo = f"{src}/patch_{letter}.diff", f"{src}/demo_{letter}.py"
    name = f"{pid}-{letter}"
    if not (os.path.exists(patch) and os.path.exists(demo)):
        return name, {"status": "missing deliverables"}
    work = tempfile.mkdtemp(prefix=f"seedv-{name}-")
    res = {"property": pid, "letter": letter}
    try:
        bad, clean = os.path.join(work, "bad"), os.path.join(work, "clean")
        export(bad); export(clean)
        r = subprocess.run(["git", "apply", "--unsafe-paths", "--directory", bad, patch], cwd=bad, capture_output=True, text=True)
        if r.returncode:
            return name, {"status": "patch does not apply to /repo HEAD", "err": r.stderr[:300]}
        touched = re.findall(r"^\+\+\+ b/(\S+)", open(patch).read(), re.M)
        res["files_touched"] = touched
        if any("/test/" in t for t in touched):
            return name, {"status": "patch touches tests"}
        failing = run_suite(bad)
        res["suite_newly_failing"] = failing
        shutil.copy(demo, os.path.join(bad, "_demo.py")); shutil.copy(demo, os.path.join(clean, "_demo.py"))
        res["demo_exit_with_change"], res["demo_output_with_change"] = run_demo(bad, "_demo.py", pid)
        res["demo_exit_clean"], _ = run_demo(clean, "_demo.py", pid)
        env = dict(os.environ, VERIF_REPO=bad)
        c = subprocess.run([os.path.join(ROOT, "check"), pid, "--tier", "quick"], capture_output=True, text=True, env=env)
        res["check_exit"] = c.returncode
        res["check_detail"] = ([l for l in c.stdout.splitlines() if l.startswith("detail:")] or [c.stdout.strip()[-300:]])[0][:600]
        ok = not failing and res["demo_exit_with_change"] == 1 and res["demo_exit_clean"] == 0
        res["status"] = "confirmed" if ok else "rejected"
        if ok:
            dst = os.path.join(ROOT, "seeded", name)
            os.makedirs(dst, exist_ok=True)
            shutil.copy(patch, os.path.join(dst, "patch.diff")); shutil.copy(demo, os.path.join(dst, "demo.py"))
            notes = open(f"{src}/NOTES.md").read() if os.path.exists(f"{src}/NOTES.md") else ""
            meta = {
                "property": pid, "checks": [pid], "origin": f"sub-agent seed-{pid}, change {letter}, given only the property text",
                "needs_to_manifest": "see notes", "notes": notes[:6000],
                "confirmed": {
                    "suite": "all 515 BASELINE stable tests still pass with the patch applied to /repo HEAD (tools/seed_verify.py)",
                    "demo_with_change_exit": res["demo_exit_with_change"], "demo_clean_exit": res["demo_exit_clean"],
                    "demo_output_with_change": res["demo_output_with_change"],
                },
                "check_result": {"cmd": f"VERIF_REPO=<patched copy> ./check {pid} --tier quick", "exit": res["check_exit"],
                                 "caught": res["check_exit"] == 1, "detail": res["check_detail"]},
            }
            json.dump(meta, open(os.path.join(dst, "meta.json"), "w"), indent=1)
        return name, res
    finally:
        shutil.rmtree(work, ignore_errors=True)

jobs = list(zip(sys.argv[1::2], sys.argv[2::2]))
with ThreadPoolExecutor(6) as ex:
    for name, res in ex.map(one, jobs):
        print(name, res.get("status"), "| suite failing:", len(res.get("suite_newly_failing", [])), "| demo:", res.get("demo_exit_with_change"), res.get("demo_exit_clean"),
              "| check exit:", res.get("check_exit"), "|", (res.get("check_detail") or res.get("err") or "")[:200])
