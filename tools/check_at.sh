#!/bin/bash
# usage: tools/check_at.sh <repo-commit> <property> [check args...]
# Runs a check against a scratch worktree of /repo at <commit>.
set -u
commit=$1; pid=$2; shift 2
wt=$(mktemp -d /tmp/check-at-XXXXXX)
git -C /repo worktree add -q --detach "$wt" "$commit" || exit 2
VERIF_REPO="$wt" /verif/check "$pid" "$@" | tail -4
rc=${PIPESTATUS[0]}
git -C /repo worktree remove --force "$wt"
exit $rc
