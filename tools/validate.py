#!/opt/veriftools/pyvenv/bin/python
"""Validate MANIFEST.json and every evidence file against the given schemas (tooling venv has jsonschema)."""
import json, glob, sys, jsonschema
ok = True
m = json.load(open('/verif/MANIFEST.json')); s = json.load(open('/root/.vp/MANIFEST.schema.json'))
jsonschema.validate(m, s); print("manifest valid:", len(m["checks"]), "checks")
es = json.load(open('/root/.vp/EVIDENCE.schema.json'))
for c in m["checks"]:
    p = c["evidence_file"]
    try:
        e = json.load(open(p)); jsonschema.validate(e, es)
        print(" ", c["property_id"], e["tier"], e["coverage"]["evaluations"], e["coverage"]["distinct_nontrivial"], f'{e["wall_s"]}s', "violations", e.get("violations"))
    except Exception as ex:
        ok = False; print(" ", c["property_id"], "EVIDENCE INVALID:", str(ex)[:200])
sys.exit(0 if ok else 1)
