#!/bin/bash
# usage: tools/check_patch.sh <patch-file> <property> [check args...]
# Runs a check against a scratch export of /repo's HEAD with <patch-file> applied.
set -u
patch=$(realpath "$1"); pid=$2; shift 2
wt=$(mktemp -d /tmp/check-patch-XXXXXX)
git -C /repo archive HEAD dataiter | tar -x -C "$wt"
(cd "$wt" && git apply --unsafe-paths --directory "$wt" "$patch") || { rm -rf "$wt"; exit 2; }
VERIF_REPO="$wt" /verif/check "$pid" "$@" | tail -4
rc=${PIPESTATUS[0]}
rm -rf "$wt"
exit $rc
