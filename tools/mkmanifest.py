#!/venv/bin/python
"""Regenerate MANIFEST.json from the table below (only properties whose module exists are claimed)."""
import json, os, subprocess, sys
ROOT = os.path.dirname(os.path.dirname(os.path.abspath(__file__)))
sys.path.insert(0, ROOT)
from vlib.runner import MODULES

BASELINE = json.load(open("/root/.vp/BASELINE.json"))["cmd"] if os.path.exists("/root/.vp/BASELINE.json") else \
    "cd /repo && /venv/bin/python -m pytest -ra -q -p no:cacheprovider --timeout=900 --continue-on-collection-errors --junitxml=<file>"

T = {
 "C01": ("generated operation histories (op-list interpreter, Hypothesis) vs shape/name model with invariant after every step", "3 C01"),
 "C02": ("Hypothesis-generated frames and subsetting ops vs row-id reference model (differential)", "3 C02"),
 "C03": ("Hypothesis-generated frames/keys vs stable comparator-sort reference with NA-placement validity set", "3 C03"),
 "C04": ("Hypothesis-generated grouped frames vs dict-grouping reference; helper-vs-lambda metamorphic relation", "3 C04"),
 "C05": ("Hypothesis-generated frame pairs vs nested-loop join reference; validity predicate for full_join", "3 C05"),
 "C06": ("Hypothesis-generated call programs; byte snapshots, np.shares_memory and in-place poke (metamorphic)", "3 C06"),
 "C07": ("Hypothesis-generated vectors/groups vs textbook statistics in pure Python (reference model)", "3 C07"),
 "C08": ("differential Numba on/off on generated inputs + generated first-use histories in fresh interpreters", "3 C08"),
 "C09": ("Hypothesis-generated frame tuples and reshaping ops vs list-of-columns reference model", "3 C09"),
 "C10": ("Hypothesis-generated value sequences vs NA-model laws (round trip, equivalence relation)", "3 C10"),
 "C11": ("Hypothesis-generated vectors vs comparator / counting reference for sort, rank, unique", "3 C11"),
 "C12": ("Hypothesis-generated frames x formats x options: write/read round trip + compression magic oracle", "3 C12"),
 "C13": ("Hypothesis-generated frames: conversion round trips + null-representation predicate", "3 C13"),
 "C14": ("differential: alias vs class method vs read-all-then-select-and-cast on generated files/kwargs", "3 C14"),
 "C15": ("Hypothesis-generated op chains vs plain list-of-dict reference implementation", "3 C15"),
 "C16": ("Hypothesis-generated list pairs vs nested-loop join / dict-group reference", "3 C16"),
 "C17": ("generated derivation histories (op-list interpreter) vs obsolescence model; invariant after each step", "3 C17"),
 "C18": ("Hypothesis-generated feature collections: read vs json model, write->json.load, write->read round trip", "3 C18"),
 "C19": ("Hypothesis-generated datetime/string vectors vs Python datetime / re element-wise (differential)", "3 C19"),
 "C20": ("Hypothesis-generated objects and print options: totality, immutability, layout validity predicate", "3 C20"),
}

def main():
    checks, na = [], []
    for pid in sorted(MODULES):
        if os.path.exists(os.path.join(ROOT, "vlib", MODULES[pid] + ".py")):
            tech, ref = T[pid]
            checks.append({
                "property_id": pid,
                "quick_cmd": f"./check {pid} --tier quick",
                "thorough_cmd": f"./check {pid} --tier thorough",
                "evidence_file": f"/verif/evidence/{pid}.json",
                "replay_cmd_template": f"./check {pid} --replay {{path}}",
                "engine": "hypothesis-plans",
                "level_claimed": {
                    "category": "exploration",
                    "text": "Randomised, seeded search over generated plans with an explicit independent oracle; "
                            "finds violations, never proves absence. Counts, class distribution and samples are in the evidence file.",
                    "design_ref": f"DESIGN.md section {ref}",
                },
                "level_note": "Trusted: the reference model / oracle in vlib (written independently of dataiter), Hypothesis, NumPy, "
                              "the Python standard library; third-party readers (pyarrow, pandas) where a property crosses them.",
                "technique": "property-based testing: " + tech,
            })
        else:
            na.append({"property_id": pid, "reason": "check not built yet in this session (planned, see DESIGN.md section 3)"})
    man = {
        "version": 1,
        "setup_cmd": "./check --setup",
        "hooks": {"guard": "DATAITER_VERIF", "enable": "no source hooks are needed; checks set DATAITER_VERIF=1 (unused by the library)",
                  "baseline_off_cmd": BASELINE, "source_commits": [], "add_only": True},
        "engines": [{"name": "hypothesis-plans", "path": "/verif/vlib",
                     "serves_properties": [c["property_id"] for c in checks],
                     "kind_free_text": "Hypothesis 6.168 strategies produce JSON plans; deterministic builder + pure check function + reference model; replay bypasses Hypothesis"}],
        "checks": checks,
        "notes": "All checks import dataiter from /repo's working tree (pure Python, nothing to build). VERIF_SEED selects the Hypothesis seed. "
                 "Known findings: /verif/known_findings.json. Seeded mutants: /verif/seeded.",
        "not_applicable": na,
    }
    with open(os.path.join(ROOT, "MANIFEST.json"), "w") as f:
        json.dump(man, f, indent=1)
        f.write("\n")
    print("claimed", len(checks), "not_applicable", len(na))

main()
