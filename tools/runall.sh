#!/bin/bash
# usage: tools/runall.sh [quick|thorough]  — runs every registered check sequentially, prints one line each
tier=${1:-quick}
cd "$(dirname "$(readlink -f "$0")")/.."      # the tree this script belongs to (a vp-run snapshot runs its own copy)
rc=0
for p in $(python3 -c "import json; print(' '.join(c['property_id'] for c in json.load(open('MANIFEST.json'))['checks']))"); do
  s=$(date +%s)
  out=$(./check $p --tier $tier 2>&1); r=$?
  e=$(( $(date +%s) - s ))
  echo "$p exit=$r ${e}s $(echo "$out" | grep -E "^C[0-9]+ (quick|thorough):" | tail -1)"
  if [ $r -ne 0 ]; then echo "$out" | grep -E "VIOLATION|detail|harness" | head -5; rc=1; fi
done
exit $rc
